package main

// gstmt.go: a typed rendering of the decision logic of selected functions (argument checks,
// response validation, request dispatch) as a small imperative language, so that Lean can EVALUATE
// the conditions of the current source for all inputs and compare them with the model
// (Model/GoEval.lean). Integer expressions keep the Go type of every node (so that conversions
// and wrap-around are evaluated, not assumed); everything that is not integer/boolean logic is an
// opaque leaf named by its source text (calls, slices, composite literals).
//
//   GExpr: lit v t | var text t | call text t | conv t e | bin op t a b | cmp op a b
//          | not e | and a b | or a b
//   GStmt: skip | seq a b | assign target e | bindCall targets callee args | ite c t e
//          | loop body | ret | brk | cont | opaque text
//
// `switch` is rendered as nested `ite` (a tagged switch compares the tag with each case value);
// `x op= e` and `x++` are desugared into assignments; logging statements are dropped; `var`
// declarations without a value are dropped (zero values are supplied by the evaluator's
// environment); `defer` and lock calls are dropped (C08 is about them).

import (
	"fmt"
	"go/ast"
	"go/constant"
	"go/token"
	"go/types"
	"strings"
)

func gty(t types.Type) string {
	if t == nil {
		return ".other"
	}
	if b, ok := t.Underlying().(*types.Basic); ok {
		switch b.Kind() {
		case types.Uint8:
			return ".u8"
		case types.Uint16:
			return ".u16"
		case types.Uint32:
			return ".u32"
		case types.Uint64, types.Uintptr:
			return ".u64"
		case types.Uint:
			return ".uint"
		case types.Int, types.UntypedInt:
			return ".int"
		case types.Int64:
			return ".i64"
		case types.Int32, types.UntypedRune:
			return ".i32"
		case types.Int16:
			return ".i16"
		case types.Int8:
			return ".i8"
		case types.Bool, types.UntypedBool:
			return ".bool"
		}
	}
	return ".other"
}

func srcText(n ast.Node) string { return strings.Join(strings.Fields(exprStr(n)), " ") }

func gexpr(e ast.Expr) string {
	tv, ok := info.Types[e]
	t := ".other"
	if ok {
		t = gty(tv.Type)
	}
	if ok && tv.Value != nil {
		switch tv.Value.Kind() {
		case constant.Int:
			return fmt.Sprintf("(.lit (%s) %s)", tv.Value.ExactString(), t)
		case constant.Bool:
			if constant.BoolVal(tv.Value) {
				return "(.lit 1 .bool)"
			}
			return "(.lit 0 .bool)"
		}
	}
	switch x := e.(type) {
	case *ast.ParenExpr:
		return gexpr(x.X)
	case *ast.IndexExpr:
		// `table[i]` on a package-level array of integers: a look-up by the VALUE of i, hoisted in
		// front of the statement as `bindCall ["#table[i]"] "index table" [i]` (gPending)
		if id, ok := x.X.(*ast.Ident); ok && t != ".other" {
			if v, isVar := info.Uses[id].(*types.Var); isVar && v.Parent() == v.Pkg().Scope() {
				if _, isArr := v.Type().Underlying().(*types.Array); isArr {
					name := "#" + srcText(e)
					gPending = append(gPending, fmt.Sprintf("(.bindCall [%s] %s [%s])", leanStr(name), leanStr("index "+id.Name), gexpr(x.Index)))
					return fmt.Sprintf("(.var %s %s)", leanStr(name), t)
				}
			}
		}
		return fmt.Sprintf("(.var %s %s)", leanStr(srcText(e)), t)
	case *ast.Ident, *ast.SelectorExpr:
		return fmt.Sprintf("(.var %s %s)", leanStr(srcText(e)), t)
	case *ast.UnaryExpr:
		switch x.Op {
		case token.NOT:
			return fmt.Sprintf("(.not %s)", gexpr(x.X))
		case token.SUB:
			return fmt.Sprintf("(.bin \"-\" %s (.lit 0 %s) %s)", t, t, gexpr(x.X))
		case token.ADD:
			return gexpr(x.X)
		}
	case *ast.BinaryExpr:
		switch x.Op {
		case token.LAND:
			return fmt.Sprintf("(.and %s %s)", gexpr(x.X), gexpr(x.Y))
		case token.LOR:
			return fmt.Sprintf("(.or %s %s)", gexpr(x.X), gexpr(x.Y))
		case token.EQL, token.NEQ, token.LSS, token.LEQ, token.GTR, token.GEQ:
			return fmt.Sprintf("(.cmp %s %s %s)", leanStr(x.Op.String()), gexpr(x.X), gexpr(x.Y))
		case token.ADD, token.SUB, token.MUL, token.QUO, token.REM, token.AND, token.OR, token.XOR, token.SHL, token.SHR, token.AND_NOT:
			return fmt.Sprintf("(.bin %s %s %s %s)", leanStr(x.Op.String()), t, gexpr(x.X), gexpr(x.Y))
		}
	case *ast.CallExpr:
		// conversion T(x) to an integer type
		if len(x.Args) == 1 {
			if ftv, ok := info.Types[x.Fun]; ok && ftv.IsType() && gty(ftv.Type) != ".other" && gty(ftv.Type) != ".bool" {
				return fmt.Sprintf("(.conv %s %s)", gty(ftv.Type), gexpr(x.Args[0]))
			}
		}
		// len(x): an integer leaf named by its text
		if id, ok := x.Fun.(*ast.Ident); ok && id.Name == "len" && len(x.Args) == 1 {
			return fmt.Sprintf("(.var %s .int)", leanStr(srcText(e)))
		}
		return fmt.Sprintf("(.call %s %s)", leanStr(srcText(e)), t)
	}
	return fmt.Sprintf("(.call %s %s)", leanStr(srcText(e)), t)
}

func gseq(l []string) string {
	var keep []string
	for _, s := range l {
		if s != "" && s != ".skip" {
			keep = append(keep, s)
		}
	}
	if len(keep) == 0 {
		return ".skip"
	}
	out := keep[len(keep)-1]
	for i := len(keep) - 2; i >= 0; i-- {
		out = fmt.Sprintf("(.seq %s %s)", keep[i], out)
	}
	return out
}

func isLockOrDefer(s ast.Stmt) bool {
	if _, ok := s.(*ast.DeferStmt); ok {
		return true
	}
	if es, ok := s.(*ast.ExprStmt); ok {
		if c, ok := es.X.(*ast.CallExpr); ok {
			n := exprStr(c.Fun)
			if strings.HasSuffix(n, ".lock.Lock") || strings.HasSuffix(n, ".lock.Unlock") || n == "verifYield" {
				return true
			}
		}
	}
	return false
}

func gstmts(l []ast.Stmt) string {
	var out []string
	for _, s := range l {
		out = append(out, gstmt(s))
	}
	return gseq(out)
}

// gLoopDepth counts the loop bodies around the statement being rendered
var gLoopDepth int

// functions in which a value-less `var x T` inside a loop body is rendered as a marker statement
var gstmtVarMarker = map[string]bool{"cli.main": true}

// gPending holds the table look-ups met while rendering the expressions of the current statement
var gPending []string

func gstmt(s ast.Stmt) string {
	saved := gPending
	gPending = nil
	out := gstmt1(s)
	pend := gPending
	gPending = saved
	if len(pend) > 0 {
		if _, ok := s.(*ast.AssignStmt); ok {
			return gseq(append(pend, out))
		}
		// a look-up inside a condition or a loop header would have to be repeated: not rendered
		return fmt.Sprintf("(.opaque %s)", leanStr("table look-up in "+fmt.Sprintf("%T", s)))
	}
	return out
}

func gstmt1(s ast.Stmt) string {
	if s == nil {
		return ".skip"
	}
	if isLoggerCall(s) || isLockOrDefer(s) {
		return ".skip"
	}
	switch x := s.(type) {
	case *ast.EmptyStmt:
		return ".skip"
	case *ast.DeclStmt:
		var out []string
		if gd, ok := x.Decl.(*ast.GenDecl); ok {
			for _, sp := range gd.Specs {
				if vs, ok := sp.(*ast.ValueSpec); ok {
					for i, n := range vs.Names {
						if i < len(vs.Values) {
							out = append(out, fmt.Sprintf("(.assign %s %s)", leanStr(n.Name), gexpr(vs.Values[i])))
						} else if gLoopDepth > 0 && len(vs.Values) == 0 && vs.Type != nil && gstmtVarMarker[gstmtCur] {
							// a value-less `var x T` inside a loop body re-initialises x to T's zero
							// value on every round: kept as a marker statement (outside loops it happens
							// once, before anything reads x, and is left out)
							out = append(out, fmt.Sprintf("(.bindCall [%s] %s [])", leanStr(n.Name), leanStr("var "+srcText(vs.Type))))
						}
					}
				}
			}
		}
		return gseq(out)
	case *ast.BlockStmt:
		return gstmts(x.List)
	case *ast.ExprStmt:
		if c, ok := x.X.(*ast.CallExpr); ok {
			var args []string
			for _, a := range c.Args {
				args = append(args, gexpr(a))
			}
			return fmt.Sprintf("(.bindCall [] %s [%s])", leanStr(exprStr(c.Fun)), strings.Join(args, ", "))
		}
		return fmt.Sprintf("(.opaque %s)", leanStr(srcText(x.X)))
	case *ast.IncDecStmt:
		op := "+"
		if x.Tok == token.DEC {
			op = "-"
		}
		t := gty(info.TypeOf(x.X))
		return fmt.Sprintf("(.assign %s (.bin %s %s %s (.lit 1 %s)))", leanStr(srcText(x.X)), leanStr(op), t, gexpr(x.X), t)
	case *ast.AssignStmt:
		if x.Tok != token.ASSIGN && x.Tok != token.DEFINE {
			// x op= e
			op := strings.TrimSuffix(x.Tok.String(), "=")
			t := gty(info.TypeOf(x.Lhs[0]))
			return fmt.Sprintf("(.assign %s (.bin %s %s %s %s))", leanStr(srcText(x.Lhs[0])), leanStr(op), t, gexpr(x.Lhs[0]), gexpr(x.Rhs[0]))
		}
		if gRich && len(x.Lhs) == 1 && len(x.Rhs) == 1 {
			if r, ok := richAssign(x.Lhs[0], x.Rhs[0]); ok {
				return r
			}
		}
		if len(x.Rhs) == 1 && len(x.Lhs) >= 1 {
			if c, ok := x.Rhs[0].(*ast.CallExpr); ok {
				if ftv, isT := info.Types[c.Fun]; !(isT && ftv.IsType()) && len(x.Lhs) > 1 {
					var ts, args []string
					for _, l := range x.Lhs {
						ts = append(ts, leanStr(srcText(l)))
					}
					for _, a := range c.Args {
						args = append(args, gexpr(a))
					}
					return fmt.Sprintf("(.bindCall [%s] %s [%s])", strings.Join(ts, ", "), leanStr(exprStr(c.Fun)), strings.Join(args, ", "))
				}
			}
		}
		if len(x.Lhs) == len(x.Rhs) && len(x.Lhs) > 1 {
			// parallel assignment `a, b = b, a`: all right-hand sides are evaluated first
			uses := false
			for _, l := range x.Lhs {
				lt := srcText(l)
				for _, r := range x.Rhs {
					if strings.Contains(srcText(r), lt) {
						uses = true
					}
				}
			}
			if uses {
				var out []string
				for i := range x.Rhs {
					out = append(out, fmt.Sprintf("(.assign %s %s)", leanStr(fmt.Sprintf("#tmp%d", i)), gexpr(x.Rhs[i])))
				}
				for i := range x.Lhs {
					out = append(out, fmt.Sprintf("(.assign %s (.var %s %s))", leanStr(srcText(x.Lhs[i])), leanStr(fmt.Sprintf("#tmp%d", i)), gty(info.TypeOf(x.Lhs[i]))))
				}
				return gseq(out)
			}
		}
		if len(x.Lhs) == len(x.Rhs) {
			var out []string
			for i := range x.Lhs {
				// a single-result call keeps its arguments as typed trees (wrappers pass computed quantities)
				if c, ok := x.Rhs[i].(*ast.CallExpr); ok {
					if ftv, isT := info.Types[c.Fun]; !(isT && ftv.IsType()) {
						id, isId := c.Fun.(*ast.Ident)
						// in the codec functions `x = append(x, e)` keeps `e` as a typed tree
						typedAppend := isId && id.Name == "append" && !c.Ellipsis.IsValid() && gstmtTypedAppend[gstmtCur]
						if typedAppend || !(isId && (id.Name == "len" || id.Name == "append" || id.Name == "make")) {
							var args, pre []string
							for _, a := range c.Args {
								if gRich && gstmtRichArgs[gstmtCur] {
									args = append(args, richArg(a, &pre))
								} else {
									args = append(args, gexpr(a))
								}
							}
							out = append(out, pre...)
							out = append(out, fmt.Sprintf("(.bindCall [%s] %s [%s])", leanStr(srcText(x.Lhs[i])), leanStr(exprStr(c.Fun)), strings.Join(args, ", ")))
							continue
						}
					}
				}
				out = append(out, fmt.Sprintf("(.assign %s %s)", leanStr(srcText(x.Lhs[i])), gexpr(x.Rhs[i])))
			}
			return gseq(out)
		}
		return fmt.Sprintf("(.opaque %s)", leanStr(srcText(x)))
	case *ast.ReturnStmt:
		if len(x.Results) == 0 {
			return ".ret"
		}
		// `return f(args)` (thin wrappers): bind the results, then return
		if len(x.Results) == 1 {
			if c, ok := x.Results[0].(*ast.CallExpr); ok {
				var args []string
				for _, a := range c.Args {
					args = append(args, gexpr(a))
				}
				return fmt.Sprintf("(.seq (.bindCall [\"return\"] %s [%s]) .ret)", leanStr(exprStr(c.Fun)), strings.Join(args, ", "))
			}
		}
		var out []string
		for i, r := range x.Results {
			out = append(out, fmt.Sprintf("(.assign %s %s)", leanStr(fmt.Sprintf("return#%d", i)), gexpr(r)))
		}
		return gseq(append(out, ".ret"))
	case *ast.BranchStmt:
		if x.Label != nil {
			return fmt.Sprintf("(.opaque %s)", leanStr("labelled "+x.Tok.String()))
		}
		switch x.Tok {
		case token.BREAK:
			return ".brk"
		case token.CONTINUE:
			// Go runs the post statement of a three-clause `for` before the next round
			if n := len(gContPost); n > 0 && gContPost[n-1] != "" {
				return fmt.Sprintf("(.seq %s .cont)", gContPost[n-1])
			}
			return ".cont"
		}
		return fmt.Sprintf("(.opaque %s)", leanStr(x.Tok.String()))
	case *ast.IfStmt:
		els := ".skip"
		if x.Else != nil {
			els = gstmt(x.Else)
		}
		return gseq([]string{gstmt(x.Init), fmt.Sprintf("(.ite %s %s %s)", gexpr(x.Cond), gstmt(x.Body), els)})
	case *ast.ForStmt:
		// `for { … }` / `for init; cond; post { … }`: loop (ite cond (body; post) brk)
		gLoopDepth++
		post := gstmt(x.Post)
		if post == ".skip" {
			post = ""
		}
		gContPost = append(gContPost, post)
		body := gseq([]string{gstmt(x.Body), gstmt(x.Post)})
		gContPost = gContPost[:len(gContPost)-1]
		gLoopDepth--
		if x.Cond != nil {
			body = fmt.Sprintf("(.ite %s %s .brk)", gexpr(x.Cond), body)
		}
		return gseq([]string{gstmt(x.Init), fmt.Sprintf("(.loop %s)", body)})
	case *ast.RangeStmt:
		// `for i := range X` (index only, over a slice / array): a counted loop over len(X), which Go
		// evaluates once before the first iteration
		if id, ok := x.Key.(*ast.Ident); ok && x.Value == nil && id.Name != "_" {
			if t := info.TypeOf(x.X); t != nil {
				switch t.Underlying().(type) {
				case *types.Slice, *types.Array:
					n := leanStr("#len(" + srcText(x.X) + ")")
					i := leanStr(id.Name)
					return fmt.Sprintf("(.seq (.assign %s (.var %s .int)) (.seq (.assign %s (.lit 0 .int)) (.loop (.ite (.cmp \"<\" (.var %s .int) (.var %s .int)) (.seq %s (.assign %s (.bin \"+\" .int (.var %s .int) (.lit 1 .int)))) .brk))))",
						n, leanStr("len("+srcText(x.X)+")"), i, i, n, rangeBody(x.Body), i, i)
				}
			}
		}
		// `for _, v := range X` over a slice, in the functions listed in gstmtValueRange: the same
		// counted loop, with `v` bound to the leaf `X[#i]` at the head of every round
		if vid, ok := x.Value.(*ast.Ident); ok && (gstmtValueRange[gstmtCur] || gRich) {
			if kid, isId := x.Key.(*ast.Ident); x.Key == nil || (isId && kid.Name == "_") {
				if t := info.TypeOf(x.X); t != nil {
					if _, isSlice := t.Underlying().(*types.Slice); isSlice {
						n := leanStr("#len(" + srcText(x.X) + ")")
						i := leanStr("#i")
						return fmt.Sprintf("(.seq (.assign %s (.var %s .int)) (.seq (.assign %s (.lit 0 .int)) (.loop (.ite (.cmp \"<\" (.var %s .int) (.var %s .int)) (.seq (.assign %s (.var %s %s)) (.seq %s (.assign %s (.bin \"+\" .int (.var %s .int) (.lit 1 .int))))) .brk))))",
							n, leanStr("len("+srcText(x.X)+")"), i, i, n, leanStr(vid.Name), leanStr(srcText(x.X)+"[#i]"), gty(info.TypeOf(vid)), rangeBody(x.Body), i, i)
					}
				}
			}
		}
		return fmt.Sprintf("(.opaque %s)", leanStr("range "+srcText(x.X)))
	case *ast.GoStmt:
		var args []string
		for _, a := range x.Call.Args {
			args = append(args, gexpr(a))
		}
		return fmt.Sprintf("(.bindCall [] %s [%s])", leanStr("go "+exprStr(x.Call.Fun)), strings.Join(args, ", "))
	case *ast.SwitchStmt:
		// a `break` inside a case leaves the switch: the whole switch is wrapped in a one-shot loop
		// (`loop (… ; brk)`), so that `brk` means the same thing in both
		var cases []*ast.CaseClause
		var def *ast.CaseClause
		for _, c := range x.Body.List {
			cc := c.(*ast.CaseClause)
			if cc.List == nil {
				def = cc
			} else {
				cases = append(cases, cc)
			}
		}
		out := ".skip"
		if def != nil {
			out = gstmts(def.Body)
		}
		for i := len(cases) - 1; i >= 0; i-- {
			cc := cases[i]
			var conds []string
			for _, v := range cc.List {
				if x.Tag != nil {
					conds = append(conds, fmt.Sprintf("(.cmp \"==\" %s %s)", gexpr(x.Tag), gexpr(v)))
				} else {
					conds = append(conds, gexpr(v))
				}
			}
			c := conds[len(conds)-1]
			for j := len(conds) - 2; j >= 0; j-- {
				c = fmt.Sprintf("(.or %s %s)", conds[j], c)
			}
			out = fmt.Sprintf("(.ite %s %s %s)", c, gstmts(cc.Body), out)
		}
		hasFallthrough := false
		ast.Inspect(x.Body, func(n ast.Node) bool {
			if b, ok := n.(*ast.BranchStmt); ok && b.Tok == token.FALLTHROUGH {
				hasFallthrough = true
			}
			return true
		})
		if hasFallthrough {
			return fmt.Sprintf("(.opaque %s)", leanStr("switch with fallthrough"))
		}
		return gseq([]string{gstmt(x.Init), fmt.Sprintf("(.loop (.seq %s .brk))", out)})
	}
	return fmt.Sprintf("(.opaque %s)", leanStr(fmt.Sprintf("%T", s)))
}

// rangeBody: the body of a counted range loop. `continue` inside it must still increment the index:
// bodies containing an unlabelled `continue` are wrapped so that the increment follows (a one-shot
// inner loop turns `cont` into leaving the body).
// gContPost: per enclosing loop, the rendering of the statement a `continue` has to run first ("" = none)
var gContPost []string

func rangeBody(b *ast.BlockStmt) string {
	gLoopDepth++
	gContPost = append(gContPost, "")
	defer func() { gLoopDepth--; gContPost = gContPost[:len(gContPost)-1] }()
	hasCont := false
	ast.Inspect(b, func(n ast.Node) bool {
		if br, ok := n.(*ast.BranchStmt); ok && br.Tok == token.CONTINUE {
			hasCont = true
		}
		return true
	})
	if hasCont {
		return fmt.Sprintf("(.opaque %s)", leanStr("range body with continue"))
	}
	return gstmts(b.List)
}

var gstmtFuncs = map[string]bool{
	"ModbusClient.readBools": true, "ModbusClient.readRegisters": true, "ModbusClient.writeRegisters": true,
	"ModbusClient.WriteCoil": true, "ModbusClient.WriteCoils": true, "ModbusClient.WriteRegister": true,
	"ModbusClient.readBytes": true, "ModbusClient.writeBytes": true, "ModbusClient.executeRequest": true,
	"ModbusClient.ReadCoils": true, "ModbusClient.ReadCoil": true, "ModbusClient.ReadDiscreteInputs": true, "ModbusClient.ReadDiscreteInput": true,
	"ModbusClient.ReadRegisters": true, "ModbusClient.ReadRegister": true, "ModbusClient.ReadUint32s": true, "ModbusClient.ReadUint32": true,
	"ModbusClient.ReadFloat32s": true, "ModbusClient.ReadFloat32": true, "ModbusClient.ReadUint64s": true, "ModbusClient.ReadUint64": true,
	"ModbusClient.ReadFloat64s": true, "ModbusClient.ReadFloat64": true, "ModbusClient.ReadBytes": true, "ModbusClient.ReadRawBytes": true,
	"ModbusClient.WriteRegisters": true, "ModbusClient.WriteUint32s": true, "ModbusClient.WriteUint32": true,
	"ModbusClient.WriteFloat32s": true, "ModbusClient.WriteFloat32": true, "ModbusClient.WriteUint64s": true, "ModbusClient.WriteUint64": true,
	"ModbusClient.WriteFloat64s": true, "ModbusClient.WriteFloat64": true, "ModbusClient.WriteBytes": true, "ModbusClient.WriteRawBytes": true,
	"ModbusServer.handleTransport": true,
	"tcpTransport.readMBAPFrame": true, "rtuTransport.readRTUFrame": true, "expectedResponseLenth": true,
	"serialCharTime": true, "newRTUTransport": true,
	// the three link adapters between the transports and the socket / serial port
	"tlsSockWrapper.Read": true, "tlsSockWrapper.Write": true, "tlsSockWrapper.Close": true, "tlsSockWrapper.SetDeadline": true,
	"tlsSockWrapper.SetReadDeadline": true, "tlsSockWrapper.SetWriteDeadline": true, "tlsSockWrapper.LocalAddr": true, "tlsSockWrapper.RemoteAddr": true,
	"udpSockWrapper.Read": true, "udpSockWrapper.Write": true, "udpSockWrapper.Close": true, "udpSockWrapper.SetDeadline": true,
	"udpSockWrapper.SetReadDeadline": true, "udpSockWrapper.SetWriteDeadline": true, "udpSockWrapper.LocalAddr": true, "udpSockWrapper.RemoteAddr": true,
	"serialPortWrapper.Read": true, "serialPortWrapper.Write": true, "serialPortWrapper.Close": true, "serialPortWrapper.SetDeadline": true, "serialPortWrapper.Open": true,
	"newUDPSockWrapper": true, "newTLSSockWrapper": true, "newSerialPortWrapper": true, "discard": true,
	"tcpTransport.ExecuteRequest": true, "tcpTransport.readResponse": true, "tcpTransport.assembleMBAPFrame": true, "rtuTransport.assembleRTUFrame": true,
	"rtuTransport.ExecuteRequest": true,
	// server side of the transports
	"tcpTransport.ReadRequest": true, "tcpTransport.WriteResponse": true, "tcpTransport.Close": true,
	"rtuTransport.ReadRequest": true, "rtuTransport.WriteResponse": true, "rtuTransport.Close": true,
	// server life cycle and role extraction
	"ModbusServer.Start": true, "ModbusServer.Stop": true, "ModbusServer.acceptTCPClients": true, "ModbusServer.handleTCPClient": true,
	"ModbusServer.startTLS": true, "ModbusServer.extractRole": true,
	"ModbusClient.Open": true, "ModbusClient.Close": true, "ModbusClient.SetEncoding": true, "ModbusClient.SetUnitId": true, "ModbusClient.encoding": true,
	"mapExceptionCodeToError": true, "mapErrorToExceptionCode": true,
	// the command-line tool
	"cli.main": true, "cli.parseUint16": true, "cli.parseInt16": true, "cli.parseUint32": true, "cli.parseInt32": true, "cli.parseFloat32": true,
	"cli.parseUint64": true, "cli.parseInt64": true, "cli.parseFloat64": true, "cli.parseAddressAndQuantity": true, "cli.parseUnitId": true, "cli.parseHexBytes": true,
	"crc.init": true, "crc.add": true, "crc.value": true, "crc.isEqual": true,
	// the rest of the package and of the tool, so that the tables over `gstmtTable` (element stores,
	// copies) range over everything but the help text
	"NewClient": true, "NewServer": true, "LoadCertPool": true, "newTCPTransport": true, "newLogger": true,
	"logger.Info": true, "logger.Infof": true, "logger.Warning": true, "logger.Warningf": true, "logger.Error": true,
	"logger.Errorf": true, "logger.Fatal": true, "logger.Fatalf": true, "logger.write": true, "Error.Error": true,
	"cli.performBoolScan": true, "cli.performRegisterScan": true, "cli.performUnitIdScan": true, "cli.performPing": true,
	"cli.decodeString": true,
	"uint32ToBytes": true, "uint64ToBytes": true, "float32ToBytes": true, "float64ToBytes": true,
	"bytesToUint32s": true, "bytesToUint64s": true, "bytesToFloat32s": true, "bytesToFloat64s": true,
	"uint16ToBytes": true, "bytesToUint16": true, "encodeBools": true, "decodeBools": true, "bytesToUint16s": true, "uint16sToBytes": true,
}

var gstmtParams = map[string][]string{}
var gstmtCur string
var gstmtValueRange = map[string]bool{"ModbusServer.Stop": true, "cli.main": true, "ModbusServer.extractRole": true, "crc.add": true}
var gstmtTypedAppend = map[string]bool{"decodeBools": true, "encodeBools": true, "bytesToUint16s": true, "uint16sToBytes": true}

// gRich: the second, richer rendering (`gsp_<fn>`) of the functions that BUILD byte strings: every
// `append`, every `[]byte{…}` literal and every field of a struct literal becomes a statement of its
// own, so that the bytes a request / response / frame is made of can be read off a run
var gRich bool
var gRichN int
var gstmtRichFuncs = map[string]bool{
	"ModbusClient.readBools": true, "ModbusClient.readRegisters": true, "ModbusClient.writeRegisters": true,
	"ModbusClient.WriteCoil": true, "ModbusClient.WriteCoils": true, "ModbusClient.WriteRegister": true,
	"ModbusClient.WriteRegisters": true, "ModbusClient.WriteUint32s": true, "ModbusClient.WriteFloat32s": true,
	"ModbusClient.WriteUint64s": true, "ModbusClient.WriteFloat64s": true, "ModbusClient.writeBytes": true,
	"ModbusServer.handleTransport": true,
	"tcpTransport.assembleMBAPFrame": true, "rtuTransport.assembleRTUFrame": true,
	// the 32 / 64-bit codecs (word order on top of encoding/binary)
	"uint32ToBytes": true, "uint64ToBytes": true, "float32ToBytes": true, "float64ToBytes": true,
	"bytesToUint32s": true, "bytesToUint64s": true, "bytesToFloat32s": true, "bytesToFloat64s": true,
}
// functions whose plain calls also get their arguments expanded (byte literals, slice expressions)
var gstmtRichArgs = map[string]bool{"bytesToUint32s": true, "bytesToUint64s": true, "bytesToFloat32s": true, "bytesToFloat64s": true,
	"uint32ToBytes": true, "uint64ToBytes": true, "float32ToBytes": true, "float64ToBytes": true}
var gstmtsRich = map[string]string{}

func isByteSliceLit(e ast.Expr) (*ast.CompositeLit, bool) {
	cl, ok := e.(*ast.CompositeLit)
	if !ok {
		return nil, false
	}
	if t := info.TypeOf(cl); t != nil {
		if sl, ok := t.Underlying().(*types.Slice); ok {
			if b, ok := sl.Elem().Underlying().(*types.Basic); ok && b.Kind() == types.Uint8 {
				return cl, true
			}
		}
	}
	return nil, false
}

// richArg renders an argument; a call of a (non-builtin, non-conversion) function is bound to a
// temporary first, so that the callee and ITS arguments stay visible
func richArg(e ast.Expr, pre *[]string) string {
	if p, ok := e.(*ast.ParenExpr); ok {
		return richArg(p.X, pre)
	}
	if c, ok := e.(*ast.CallExpr); ok {
		if ftv, isT := info.Types[c.Fun]; !(isT && ftv.IsType()) {
			id, isId := c.Fun.(*ast.Ident)
			if !(isId && (id.Name == "len" || id.Name == "cap" || id.Name == "append" || id.Name == "make")) {
				var args []string
				for _, a := range c.Args {
					args = append(args, richArg(a, pre))
				}
				tmp := fmt.Sprintf("#arg%d", gRichN)
				gRichN++
				*pre = append(*pre, fmt.Sprintf("(.bindCall [%s] %s [%s])", leanStr(tmp), leanStr(exprStr(c.Fun)), strings.Join(args, ", ")))
				return fmt.Sprintf("(.var %s %s)", leanStr(tmp), gty(info.TypeOf(e)))
			}
		}
	}
	if cl, ok := isByteSliceLit(e); ok {
		var args []string
		for _, el := range cl.Elts {
			args = append(args, richArg(el, pre))
		}
		tmp := fmt.Sprintf("#arg%d", gRichN)
		gRichN++
		*pre = append(*pre, fmt.Sprintf("(.bindCall [%s] \"bytes\" [%s])", leanStr(tmp), strings.Join(args, ", ")))
		return fmt.Sprintf("(.var %s .other)", leanStr(tmp))
	}
	// x[lo:hi] (two-index slice expression): the bounds stay typed expressions
	if se, ok := e.(*ast.SliceExpr); ok && !se.Slice3 {
		lo, hi := "(.lit 0 .int)", fmt.Sprintf("(.var %s .int)", leanStr("len("+srcText(se.X)+")"))
		if se.Low != nil {
			lo = gexpr(se.Low)
		}
		if se.High != nil {
			hi = gexpr(se.High)
		}
		tmp := fmt.Sprintf("#arg%d", gRichN)
		gRichN++
		*pre = append(*pre, fmt.Sprintf("(.bindCall [%s] \"slice\" [%s, %s, %s])", leanStr(tmp), gexpr(se.X), lo, hi))
		return fmt.Sprintf("(.var %s .other)", leanStr(tmp))
	}
	return gexpr(e)
}

func richAssign(lhs, rhs ast.Expr) (string, bool) {
	target := srcText(lhs)
	var pre []string
	if p, ok := rhs.(*ast.ParenExpr); ok {
		rhs = p.X
	}
	// x = append(y, a, b) / x = append(y, z...)
	if c, ok := rhs.(*ast.CallExpr); ok {
		if id, isId := c.Fun.(*ast.Ident); isId && id.Name == "append" && len(c.Args) >= 1 {
			if _, isB := info.Uses[id].(*types.Builtin); isB {
				var args []string
				for _, a := range c.Args {
					args = append(args, richArg(a, &pre))
				}
				name := "append"
				if c.Ellipsis.IsValid() {
					name = "append..."
				}
				return gseq(append(pre, fmt.Sprintf("(.bindCall [%s] %s [%s])", leanStr(target), leanStr(name), strings.Join(args, ", ")))), true
			}
		}
		return "", false
	}
	// x = []byte{a, b}
	if cl, ok := isByteSliceLit(rhs); ok {
		var args []string
		for _, el := range cl.Elts {
			args = append(args, richArg(el, &pre))
		}
		return gseq(append(pre, fmt.Sprintf("(.bindCall [%s] \"bytes\" [%s])", leanStr(target), strings.Join(args, ", ")))), true
	}
	// x = &T{ f: e, … } / x = T{ f: e, … }: the literal as before, then one statement per field
	lit := rhs
	if u, ok := rhs.(*ast.UnaryExpr); ok && u.Op == token.AND {
		lit = u.X
	}
	if cl, ok := lit.(*ast.CompositeLit); ok {
		if t := info.TypeOf(cl); t != nil {
			if _, isStruct := t.Underlying().(*types.Struct); isStruct {
				out := []string{fmt.Sprintf("(.assign %s (.call %s .other))", leanStr(target), leanStr(srcText(rhs)))}
				for _, el := range cl.Elts {
					kv, ok := el.(*ast.KeyValueExpr)
					if !ok {
						return "", false
					}
					k, ok := kv.Key.(*ast.Ident)
					if !ok {
						return "", false
					}
					var fpre []string
					v := richArg(kv.Value, &fpre)
					out = append(out, fpre...)
					out = append(out, fmt.Sprintf("(.assign %s %s)", leanStr(target+"."+k.Name), v))
				}
				return gseq(out), true
			}
		}
	}
	return "", false
}

func collectGStmt(fn string, fd *ast.FuncDecl, out map[string]string) {
	if !gstmtFuncs[fn] || fd.Body == nil {
		return
	}
	gstmtCur = fn
	if gstmtRichFuncs[fn] {
		gRich, gRichN = true, 0
		gstmtsRich[fn] = gstmts(fd.Body.List)
		gRich = false
	}
	out[fn] = gstmts(fd.Body.List)
	ps := []string{}
	for _, f := range fd.Type.Params.List {
		for _, n := range f.Names {
			ps = append(ps, n.Name)
		}
	}
	gstmtParams[fn] = ps
}
