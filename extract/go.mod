module verifextract

go 1.16
