// extract: regenerates ModbusVerif/Generated/Facts.lean from /repo's current working tree.
//
// It type-checks the package (go/types, source importer, offline) so that constants are
// evaluated rather than pattern-matched, and emits:
//   - crcTable, all integer/string package constants,
//   - the three code tables (exception<->error, expected RTU response length),
//   - per-function fingerprints of the decision logic (comments and logging stripped),
//   - the lock/access tables of ModbusClient and ModbusServer methods,
//   - the tls.Config composite literals,
//   - the timing expressions of the RTU transport.
package main

import (
	"bytes"
	"crypto/sha256"
	"encoding/hex"
	"encoding/json"
	"fmt"
	"go/ast"
	"go/constant"
	"go/importer"
	"go/parser"
	"go/printer"
	"go/token"
	"go/types"
	"os"
	"path/filepath"
	"sort"
	"strings"
)

var fset = token.NewFileSet()
var info = &types.Info{Types: map[ast.Expr]types.TypeAndValue{}, Defs: map[*ast.Ident]types.Object{},
	Uses: map[*ast.Ident]types.Object{}, Selections: map[*ast.SelectorExpr]*types.Selection{}}

type chainImporter struct {
	base types.Importer
	pkg  *types.Package
}

func (c chainImporter) Import(path string) (*types.Package, error) {
	if path == "github.com/simonvetter/modbus" {
		return c.pkg, nil
	}
	return c.base.Import(path)
}

func leanStr(s string) string {
	s = strings.ReplaceAll(s, "\\", "\\\\")
	s = strings.ReplaceAll(s, "\"", "\\\"")
	s = strings.ReplaceAll(s, "\n", "\\n")
	s = strings.ReplaceAll(s, "\t", " ")
	return "\"" + s + "\""
}

func exprStr(e ast.Node) string {
	var b bytes.Buffer
	printer.Fprint(&b, fset, e)
	return strings.Join(strings.Fields(b.String()), " ")
}

func constVal(e ast.Expr) (string, bool) {
	tv, ok := info.Types[e]
	if !ok || tv.Value == nil {
		return "", false
	}
	switch tv.Value.Kind() {
	case constant.Int:
		return tv.Value.ExactString(), true
	case constant.String:
		return constant.StringVal(tv.Value), true
	}
	return tv.Value.ExactString(), true
}

// isLoggerCall: a statement that only logs (mc.logger.X(...), ms.logger.X(...), tt.logger...)
func isLoggerCall(s ast.Stmt) bool {
	es, ok := s.(*ast.ExprStmt)
	if !ok {
		return false
	}
	call, ok := es.X.(*ast.CallExpr)
	if !ok {
		return false
	}
	sel, ok := call.Fun.(*ast.SelectorExpr)
	if !ok {
		return false
	}
	if strings.HasPrefix(sel.Sel.Name, "Fatal") {
		return false
	}
	inner, ok := sel.X.(*ast.SelectorExpr)
	return ok && inner.Sel.Name == "logger"
}

func stripLogging(n ast.Node) {
	ast.Inspect(n, func(x ast.Node) bool {
		switch b := x.(type) {
		case *ast.BlockStmt:
			b.List = filterStmts(b.List)
		case *ast.CaseClause:
			b.Body = filterStmts(b.Body)
		}
		return true
	})
}

func filterStmts(in []ast.Stmt) []ast.Stmt {
	var out []ast.Stmt
	for _, s := range in {
		if !isLoggerCall(s) {
			out = append(out, s)
		}
	}
	return out
}

func funcName(fd *ast.FuncDecl) string {
	if fd.Recv != nil && len(fd.Recv.List) > 0 {
		t := fd.Recv.List[0].Type
		if st, ok := t.(*ast.StarExpr); ok {
			t = st.X
		}
		return exprStr(t) + "." + fd.Name.Name
	}
	return fd.Name.Name
}

type act struct {
	kind string // acq rel rd wr call go
	name string
	held bool
	line int
}

func main() {
	repo := "/repo"
	out := "/verif/lean/ModbusVerif/Generated/Facts.lean"
	normDir := "/verif/.work/norm"
	if len(os.Args) > 1 {
		repo = os.Args[1]
	}
	if len(os.Args) > 2 {
		out = os.Args[2]
	}
	if len(os.Args) > 3 {
		normDir = os.Args[3]
	}
	os.MkdirAll(normDir, 0o755)
	var files []*ast.File
	var cliFile *ast.File
	matches, _ := filepath.Glob(filepath.Join(repo, "*.go"))
	sort.Strings(matches)
	for _, m := range matches {
		base := filepath.Base(m)
		if strings.HasSuffix(base, "_test.go") || base == "verif_hooks.go" {
			continue
		}
		f, err := parser.ParseFile(fset, m, nil, 0) // comments dropped
		if err != nil {
			fmt.Fprintln(os.Stderr, "parse error:", err)
			os.Exit(2)
		}
		files = append(files, f)
	}
	if f, err := parser.ParseFile(fset, filepath.Join(repo, "cmd", "modbus-cli.go"), nil, 0); err == nil {
		cliFile = f
	}
	var typeErrs []string
	srcImporter := importer.ForCompiler(fset, "source", nil) // one instance: packages are cached per instance
	conf := types.Config{Importer: srcImporter,
		Error: func(err error) { typeErrs = append(typeErrs, err.Error()) }}
	pkg, _ := conf.Check("github.com/simonvetter/modbus", fset, files, info)
	// the command-line tool is a separate package (main) importing the library: type-check it
	// against the package just checked, into the same info maps, so that its expressions can be
	// rendered with their Go types (errors here are reported but do not stop the extraction)
	if cliFile != nil && pkg != nil {
		cliConf := types.Config{Importer: chainImporter{base: srcImporter, pkg: pkg},
			Error: func(err error) { typeErrs = append(typeErrs, "cli: "+err.Error()) }}
		cliConf.Check("main", fset, []*ast.File{cliFile}, info)
	}

	var w bytes.Buffer
	p := func(format string, a ...interface{}) { fmt.Fprintf(&w, format, a...) }
	p("/- GENERATED by /verif/extract from %s on every check run. Do not edit. -/\n", repo)
	p("namespace Modbus.Gen\n\n")
	p("def typeErrors : Nat := %d\n\n", len(typeErrs))

	// ---- constants -------------------------------------------------------------------------
	var intConsts, strConsts []string
	if pkg != nil {
		names := pkg.Scope().Names()
		sort.Strings(names)
		for _, n := range names {
			c, ok := pkg.Scope().Lookup(n).(*types.Const)
			if !ok {
				continue
			}
			switch c.Val().Kind() {
			case constant.Int:
				intConsts = append(intConsts, fmt.Sprintf("(%s, %s)", leanStr(n), c.Val().ExactString()))
			case constant.String:
				strConsts = append(strConsts, fmt.Sprintf("(%s, %s)", leanStr(n), leanStr(constant.StringVal(c.Val()))))
			}
		}
	}
	p("def intConsts : List (String × Int) := [\n  %s]\n\n", strings.Join(intConsts, ",\n  "))
	p("def strConsts : List (String × String) := [\n  %s]\n\n", strings.Join(strConsts, ",\n  "))
	if pkg != nil {
		names := pkg.Scope().Names()
		sort.Strings(names)
		for _, n := range names {
			if c, ok := pkg.Scope().Lookup(n).(*types.Const); ok && c.Val().Kind() == constant.Int {
				p("def const_%s : Int := %s\n", n, c.Val().ExactString())
			}
		}
	}
	p("\n")

	// ---- walk declarations -----------------------------------------------------------------
	var crc []string
	fingerprints := map[string]string{}
	var receivers []string // (method, has a pointer receiver)
	switchTables := map[string][]string{}
	var tlsLits []string
	var tlsStructs []tlsStruct
	skeletons := map[string][]string{}
	accessTables := map[string][]act{}
	flowTables := map[string]*flow{}
	gstmts := map[string]string{}
	var handlerCalls []handlerCall
	paramWrites := map[string][]string{}
	var fnames []string
	allFiles := append([]*ast.File{}, files...)
	if cliFile != nil {
		allFiles = append(allFiles, cliFile)
	}
	for _, f := range allFiles {
		isCli := f == cliFile
		for _, d := range f.Decls {
			switch dd := d.(type) {
			case *ast.GenDecl:
				for _, sp := range dd.Specs {
					vs, ok := sp.(*ast.ValueSpec)
					if !ok || isCli {
						continue
					}
					for i, n := range vs.Names {
						if n.Name == "crcTable" && i < len(vs.Values) {
							if cl, ok := vs.Values[i].(*ast.CompositeLit); ok {
								for _, e := range cl.Elts {
									if v, ok := constVal(e); ok {
										crc = append(crc, v)
									} else {
										crc = append(crc, "0 /- non-constant: "+exprStr(e)+" -/")
									}
								}
							}
						}
						if n.Name == "modbusRoleOID" && i < len(vs.Values) {
							sum := sha256.Sum256([]byte(exprStr(vs.Values[i])))
							fingerprints["var.modbusRoleOID"] = hex.EncodeToString(sum[:8])
						}
					}
				}
			case *ast.FuncDecl:
				name := funcName(dd)
				if isCli {
					name = "cli." + name
				}
				if dd.Body == nil {
					continue
				}
				// tables and literals are collected before logging is stripped (they do not log)
				if isCli {
					collectGStmt(name, dd, gstmts)
				}
				if !isCli {
					collectSwitchTable(name, dd, switchTables)
					collectTLSStruct(name, dd, &tlsStructs)
					if name == "ModbusServer.handleTCPClient" || name == "ModbusServer.startTLS" || name == "ModbusClient.Open" || name == "ModbusServer.acceptTCPClients" ||
						name == "NewClient" || name == "NewServer" || name == "ModbusClient.SetEncoding" || name == "ModbusClient.SetUnitId" ||
						name == "float32ToBytes" || name == "float64ToBytes" || name == "bytesToFloat32s" || name == "bytesToFloat64s" {
						skeletons[name] = skeletonOf(dd.Body)
						// named results and parameters first: ("results", "", names), ("params", "", names)
						var rs, ps []string
						if dd.Type.Results != nil {
							for _, f := range dd.Type.Results.List {
								for _, n := range f.Names {
									rs = append(rs, n.Name)
								}
							}
						}
						for _, f := range dd.Type.Params.List {
							for _, n := range f.Names {
								ps = append(ps, n.Name)
							}
						}
						skeletons[name] = append([]string{"params\x1f\x1f" + strings.Join(ps, "\x1e"), "results\x1f\x1f" + strings.Join(rs, "\x1e")}, skeletons[name]...)
					}
					collectTLS(name, dd, &tlsLits)
					collectAccess(name, dd, accessTables)
					collectFlow(name, dd, flowTables)
					collectGStmt(name, dd, gstmts)
					collectHandlerCalls(name, dd, &handlerCalls, paramWrites)
				}
				stripLogging(dd.Body)
				var b bytes.Buffer
				printer.Fprint(&b, fset, dd)
				norm := strings.Join(strings.Fields(b.String()), " ")
				sum := sha256.Sum256([]byte(norm))
				fingerprints[name] = hex.EncodeToString(sum[:8])
				fnames = append(fnames, name)
				if dd.Recv != nil && len(dd.Recv.List) > 0 {
					_, isPtr := dd.Recv.List[0].Type.(*ast.StarExpr)
					receivers = append(receivers, fmt.Sprintf("(%s, %v)", leanStr(name), isPtr))
				}
				os.WriteFile(filepath.Join(normDir, strings.ReplaceAll(name, "/", "_")+".txt"), []byte(b.String()), 0o644)
			}
		}
	}
	p("def crcTable : List Nat := [\n  %s]\n\n", strings.Join(crc, ", "))

	keys := make([]string, 0, len(fingerprints))
	for k := range fingerprints {
		keys = append(keys, k)
	}
	sort.Strings(keys)
	sort.Strings(receivers)
	p("/-- every method with the kind of its receiver (true = pointer): a method with a VALUE receiver works on a\n    copy of the struct, so `mc.lock.Lock()` in it locks a copy of the mutex -/\n")
	p("def receivers : List (String × Bool) := [\n  %s]\n\n", strings.Join(receivers, ",\n  "))
	p("/-- fingerprint (first 64 bits of sha256 of the normalised source, comments and logging removed) per function -/\n")
	for _, k := range keys {
		p("def fp_%s : Nat := 0x%s\n", identOf(k), fingerprints[k])
	}
	p("\n")

	tkeys := make([]string, 0, len(switchTables))
	for k := range switchTables {
		tkeys = append(tkeys, k)
	}
	sort.Strings(tkeys)
	p("/-- switch tables: function#tag, rows \"case values => assignments\" in source order -/\n")
	for _, k := range tkeys {
		rows := make([]string, len(switchTables[k]))
		for j, r := range switchTables[k] {
			rows[j] = leanStr(r)
		}
		p("def table_%s : List String := [\n  %s]\n", identOf(k), strings.Join(rows, ",\n  "))
	}
	p("\n")

	p("-- the three code tables, structured: (case values, assigned identifier / expression), in source order\n")
	for _, k := range []string{"mapExceptionCodeToError#exceptionCode", "expectedResponseLenth#responseCode"} {
		var rows []string
		for _, r := range structRows[k] {
			vs := []string{}
			for _, v := range r.vals {
				if v != "default" {
					vs = append(vs, v)
				}
			}
			rows = append(rows, fmt.Sprintf("([%s], %s)", strings.Join(vs, ", "), leanStr(r.rhs)))
		}
		p("/-- numeric case values ([] = default) -/\ndef rows_%s : List (List Nat × String) := [\n  %s]\n", identOf(strings.SplitN(k, "#", 2)[0]), strings.Join(rows, ",\n  "))
	}
	{
		var rows []string
		for _, r := range structRows["mapErrorToExceptionCode#err"] {
			for _, v := range r.vals {
				rows = append(rows, fmt.Sprintf("(%s, %s)", leanStr(v), leanStr(r.rhs)))
			}
		}
		p("/-- keyed by the error's string value (\"default\" = default) -/\ndef rows_mapErrorToExceptionCode : List (String × String) := [\n  %s]\n", strings.Join(rows, ",\n  "))
	}
	p("\n")
	p("/-- tls.Config composite literals, structured: (field, value expression, constant value if any) -/\n")
	for _, l := range tlsStructs {
		var rows []string
		for _, kv := range l.kvs {
			c := "none"
			if kv[2] != "" {
				c = "some " + kv[2]
			}
			rows = append(rows, fmt.Sprintf("(%s, %s, %s)", leanStr(kv[0]), leanStr(kv[1]), c))
		}
		p("def tlsLit_%s : List (String × String × Option Int) := [%s]\n", identOf(l.fn), strings.Join(rows, ", "))
	}
	p("def tlsLitCount : Nat := %d\n\n", len(tlsStructs))
	p("/-- control/call skeletons of the functions that gate TLS sessions -/\n")
	// the test hook that attaches a client to a given connection repeats the wiring of Open():
	// its skeleton (syntactic only, the file is behind the build tag) is emitted so that Lean can
	// prove the two agree per transport type
	if hf, err := parser.ParseFile(fset, filepath.Join(repo, "verif_hooks.go"), nil, 0); err == nil {
		for _, d := range hf.Decls {
			if fd, ok := d.(*ast.FuncDecl); ok && fd.Recv == nil && fd.Body != nil &&
				(fd.Name.Name == "VerifNewClientOnConn" || fd.Name.Name == "VerifNewClientOnSerialPort") {
				skeletons[fd.Name.Name] = skeletonOf(fd.Body)
			}
		}
	}
	skeys := make([]string, 0, len(skeletons))
	for k := range skeletons {
		skeys = append(skeys, k)
	}
	sort.Strings(skeys)
	for _, k := range skeys {
		rows := make([]string, len(skeletons[k]))
		for i, r := range skeletons[k] {
			f := strings.Split(r, "\x1f")
			var args []string
			if f[2] != "" {
				for _, a := range strings.Split(f[2], "\x1e") {
					args = append(args, leanStr(a))
				}
			}
			rows[i] = fmt.Sprintf("(%s, %s, [%s])", leanStr(f[0]), leanStr(f[1]), strings.Join(args, ", "))
		}
		p("def skeleton_%s : List (String × String × List String) := [\n  %s]\n", identOf(k), strings.Join(rows, ",\n  "))
	}
	p("\n")
	p("/-- every tls.Config composite literal: \"function: Key=value; …\" -/\n")
	p("def tlsConfigs : List String := [%s]\n\n", strings.Join(tlsLits, ",\n  "))

	akeys := make([]string, 0, len(accessTables))
	for k := range accessTables {
		akeys = append(akeys, k)
	}
	sort.Strings(akeys)
	p("/-- per method: ordered lock operations, receiver-field accesses, method calls and go statements,\n    each with \"lock syntactically held here\" -/\n")
	p("inductive ActKind | acq | rel | rd | wr | call | go\n  deriving DecidableEq, Repr\n")
	p("structure Act where\n  kind : ActKind\n  name : String\n  held : Bool\n  deriving DecidableEq, Repr\n\n")
	for _, k := range akeys {
		var rows []string
		for _, a := range accessTables[k] {
			rows = append(rows, fmt.Sprintf("⟨.%s, %s, %v⟩", a.kind, leanStr(a.name), a.held))
		}
		p("def access_%s : List Act := [%s]\n", identOf(k), strings.Join(rows, ", "))
	}
	p("\ndef accessTables : List (String × List Act) := [\n")
	for i, k := range akeys {
		sep := ","
		if i == len(akeys)-1 {
			sep = ""
		}
		p("  (%s, access_%s)%s\n", leanStr(k), identOf(k), sep)
	}
	p("]\n\n")
	p("/-- per method: the structured control flow with lock operations, receiver-field accesses, method\n    calls and go statements (nothing decided by the translator; see extract/flow.go) -/\n")
	p("inductive Flow\n  | skip | act (k : ActKind) (name : String) | seq (a b : Flow) | alt (a b : Flow)\n  | loop (b : Flow) | block (b : Flow) | ret | brk | cont | deferRel | stuck (why : String)\n  deriving Repr\n\n")
	fkeys := make([]string, 0, len(flowTables))
	for k := range flowTables {
		fkeys = append(fkeys, k)
	}
	sort.Strings(fkeys)
	for _, k := range fkeys {
		p("def flow_%s : Flow := %s\n", identOf(k), flowTables[k].lean())
	}
	p("\ndef flowTables : List (String × Flow) := [\n")
	for i, k := range fkeys {
		sep := ","
		if i == len(fkeys)-1 {
			sep = ""
		}
		p("  (%s, flow_%s)%s\n", leanStr(k), identOf(k), sep)
	}
	p("]\n\n")
	p("/-- typed rendering of the decision logic of selected functions (extract/gstmt.go) -/\n")
	p("inductive GTy | u8 | u16 | u32 | u64 | uint | i8 | i16 | i32 | i64 | int | bool | other\n  deriving DecidableEq, Repr\n")
	p("inductive GExpr\n  | lit (v : Int) (t : GTy) | var (text : String) (t : GTy) | call (text : String) (t : GTy)\n  | conv (t : GTy) (e : GExpr) | bin (op : String) (t : GTy) (a b : GExpr) | cmp (op : String) (a b : GExpr)\n  | not (e : GExpr) | and (a b : GExpr) | or (a b : GExpr)\n  deriving Repr\n")
	p("inductive GStmt\n  | skip | seq (a b : GStmt) | assign (target : String) (e : GExpr)\n  | bindCall (targets : List String) (callee : String) (args : List GExpr)\n  | ite (c : GExpr) (t e : GStmt) | loop (body : GStmt) | ret | brk | cont | opaque (text : String)\n  deriving Repr\n\n")
	gkeys := make([]string, 0, len(gstmts))
	for k := range gstmts {
		gkeys = append(gkeys, k)
	}
	sort.Strings(gkeys)
	for _, k := range gkeys {
		p("def gs_%s : GStmt := %s\n", identOf(k), gstmts[k])
	}
	p("\n/-- the richer rendering of the functions that build byte strings (every append, byte literal and literal field a statement) -/\n")
	rkeys := make([]string, 0, len(gstmtsRich))
	for k := range gstmtsRich {
		rkeys = append(rkeys, k)
	}
	sort.Strings(rkeys)
	for _, k := range rkeys {
		p("def gsp_%s : GStmt := %s\n", identOf(k), gstmtsRich[k])
	}
	p("\n/-- parameter names, in order, of the rendered functions -/\ndef gsParams : List (String × List String) := [\n")
	for i, k := range gkeys {
		sep := ","
		if i == len(gkeys)-1 {
			sep = ""
		}
		var ps []string
		for _, n := range gstmtParams[k] {
			ps = append(ps, leanStr(n))
		}
		p("  (%s, [%s])%s\n", leanStr(k), strings.Join(ps, ", "), sep)
	}
	p("]\n")
	p("\ndef gstmtTable : List (String × GStmt) := [\n")
	for i, k := range gkeys {
		sep := ","
		if i == len(gkeys)-1 {
			sep = ""
		}
		p("  (%s, gs_%s)%s\n", leanStr(k), identOf(k), sep)
	}
	p("]\n\n")
	p("/-- every call through the server's `handler` field: (function, method, request type, literal fields) -/\n")
	{
		var rows []string
		for _, hc := range handlerCalls {
			var kvs []string
			for _, kv := range hc.kvs {
				kvs = append(kvs, fmt.Sprintf("(%s, %s)", leanStr(kv[0]), leanStr(kv[1])))
			}
			rows = append(rows, fmt.Sprintf("(%s, %s, %s, [%s])", leanStr(hc.fn), leanStr(hc.method), leanStr(hc.typ), strings.Join(kvs, ", ")))
		}
		p("def handlerCalls : List (String × String × String × List (String × String)) := [\n  %s]\n\n", strings.Join(rows, ",\n  "))
		pk := make([]string, 0, len(paramWrites))
		for k := range paramWrites {
			pk = append(pk, k)
		}
		sort.Strings(pk)
		rows = nil
		for _, k := range pk {
			var ws []string
			for _, w := range paramWrites[k] {
				ws = append(ws, leanStr(w))
			}
			var ps []string
			for _, w := range paramNames[k] {
				ps = append(ps, leanStr(w))
			}
			rows = append(rows, fmt.Sprintf("(%s, [%s], [%s])", leanStr(k), strings.Join(ps, ", "), strings.Join(ws, ", ")))
		}
		p("/-- per ModbusServer method: its parameters, and those that are assigned or have their address taken in the body -/\ndef paramInfo : List (String × List String × List String) := [\n  %s]\n\n", strings.Join(rows, ",\n  "))
	}
	p("end Modbus.Gen\n")

	jb, _ := json.MarshalIndent(map[string]interface{}{
		"fingerprints": fingerprints, "switchTables": switchTables, "tlsConfigs": tlsLits,
		"intConsts": intConsts, "strConsts": strConsts, "skeletons": skeletons, "tlsStructs": tlsStructsJSON(tlsStructs), "accessTables": accessJSON(accessTables),
		"typeErrors": typeErrs, "crcTable": crc,
	}, "", " ")
	os.WriteFile(filepath.Join(normDir, "..", "facts.json"), jb, 0o644)

	old, _ := os.ReadFile(out)
	if !bytes.Equal(old, w.Bytes()) {
		os.MkdirAll(filepath.Dir(out), 0o755)
		if err := os.WriteFile(out, w.Bytes(), 0o644); err != nil {
			fmt.Fprintln(os.Stderr, err)
			os.Exit(2)
		}
		fmt.Println("facts: regenerated", out)
	} else {
		fmt.Println("facts: unchanged")
	}
	for _, e := range typeErrs {
		fmt.Fprintln(os.Stderr, "typecheck:", e)
	}
}

// collectSwitchTable records `switch tag { case a, b: lhs = rhs ... default: ... }` rows.
type structRow struct {
	vals []string
	rhs  string
}

var structRows = map[string][]structRow{}

func collectSwitchTable(fn string, fd *ast.FuncDecl, out map[string][]string) {
	ast.Inspect(fd.Body, func(n ast.Node) bool {
		sw, ok := n.(*ast.SwitchStmt)
		if !ok || sw.Tag == nil {
			return true
		}
		key := fn + "#" + exprStr(sw.Tag)
		for _, c := range sw.Body.List {
			cc := c.(*ast.CaseClause)
			var vals []string
			for _, e := range cc.List {
				if v, ok := constVal(e); ok {
					vals = append(vals, v)
				} else {
					vals = append(vals, exprStr(e))
				}
			}
			if cc.List == nil {
				vals = []string{"default"}
			}
			var body []string
			for _, s := range cc.Body {
				if isLoggerCall(s) {
					continue
				}
				if as, ok := s.(*ast.AssignStmt); ok && len(as.Lhs) == 1 && len(as.Rhs) == 1 {
					rhs := exprStr(as.Rhs[0])
					if v, ok := constVal(as.Rhs[0]); ok {
						if id, isId := as.Rhs[0].(*ast.Ident); isId {
							rhs = id.Name + "=" + v
						} else {
							rhs = v
						}
					}
					body = append(body, exprStr(as.Lhs[0])+" := "+rhs)
				} else {
					body = append(body, stmtKind(s))
				}
			}
			out[key] = append(out[key], strings.Join(vals, ",")+" => "+strings.Join(body, "; "))
			// structured copy for single-assignment cases: values, right-hand side (identifier or expression)
			if len(cc.Body) >= 1 {
				if as, ok := cc.Body[0].(*ast.AssignStmt); ok && len(as.Rhs) == 1 {
					rhs := exprStr(as.Rhs[0])
					if id, isId := as.Rhs[0].(*ast.Ident); isId {
						rhs = id.Name
					}
					structRows[key] = append(structRows[key], structRow{vals, rhs})
				}
			}
		}
		return true
	})
}

func stmtKind(s ast.Stmt) string {
	switch x := s.(type) {
	case *ast.ReturnStmt:
		return "return"
	case *ast.IfStmt:
		return "if " + exprStr(x.Cond)
	case *ast.ExprStmt:
		return exprStr(x.X)
	case *ast.BranchStmt:
		return x.Tok.String()
	case *ast.DeclStmt:
		return "decl"
	}
	return fmt.Sprintf("%T", s)
}

func collectTLS(fn string, fd *ast.FuncDecl, out *[]string) {
	ast.Inspect(fd.Body, func(n ast.Node) bool {
		cl, ok := n.(*ast.CompositeLit)
		if !ok || cl.Type == nil || exprStr(cl.Type) != "tls.Config" {
			return true
		}
		var kv []string
		for _, e := range cl.Elts {
			if k, ok := e.(*ast.KeyValueExpr); ok {
				v := exprStr(k.Value)
				if cv, ok := constVal(k.Value); ok {
					v = exprStr(k.Value) + "=" + cv
				}
				kv = append(kv, exprStr(k.Key)+"="+v)
			}
		}
		*out = append(*out, leanStr(fn+": "+strings.Join(kv, "; ")))
		return true
	})
}

// collectAccess walks a method body in source order and records lock operations on the receiver's
// `lock` field, reads/writes of receiver fields, calls of receiver methods and go statements.
func collectAccess(fn string, fd *ast.FuncDecl, out map[string][]act) {
	if fd.Recv == nil || len(fd.Recv.List) == 0 || len(fd.Recv.List[0].Names) == 0 {
		return
	}
	recv := fd.Recv.List[0].Names[0].Name
	if !(strings.HasPrefix(fn, "ModbusClient.") || strings.HasPrefix(fn, "ModbusServer.")) {
		return
	}
	held := false
	deferred := false
	var acts []act
	line := func(n ast.Node) int { return fset.Position(n.Pos()).Line }
	isRecvSel := func(e ast.Expr) (string, bool) {
		se, ok := e.(*ast.SelectorExpr)
		if !ok {
			return "", false
		}
		id, ok := se.X.(*ast.Ident)
		if !ok || id.Name != recv {
			return "", false
		}
		return se.Sel.Name, true
	}
	var walkExpr func(e ast.Node, write bool)
	walkExpr = func(e ast.Node, write bool) {
		if e == nil {
			return
		}
		switch x := e.(type) {
		case *ast.CallExpr:
			if se, ok := x.Fun.(*ast.SelectorExpr); ok {
				// recv.lock.Lock() / Unlock()
				if inner, ok := se.X.(*ast.SelectorExpr); ok {
					if f, ok := isRecvSel(inner); ok && f == "lock" {
						switch se.Sel.Name {
						case "Lock":
							held = true
							acts = append(acts, act{"acq", "lock", true, line(x)})
						case "Unlock":
							held = false
							acts = append(acts, act{"rel", "lock", false, line(x)})
						}
						return
					}
				}
				// recv.transport.Method(...): i/o through the shared transport object (its own state and
				// the connection): recorded as an exclusive access to the pseudo field "transport!"
				if inner, ok := se.X.(*ast.SelectorExpr); ok {
					if f, ok := isRecvSel(inner); ok && f == "transport" {
						for _, a := range x.Args {
							walkExpr(a, false)
						}
						acts = append(acts, act{"rd", "transport", held, line(x)})
						acts = append(acts, act{"wr", "transport!", held, line(x)})
						return
					}
				}
				// recv.method(...)
				if m, ok := isRecvSel(se); ok {
					if sel, ok := info.Selections[se]; ok && sel.Kind() == types.MethodVal {
						for _, a := range x.Args {
							walkExpr(a, false)
						}
						acts = append(acts, act{"call", m, held, line(x)})
						return
					}
				}
			}
			walkExpr(x.Fun, false)
			for _, a := range x.Args {
				walkExpr(a, false)
			}
			return
		case *ast.SelectorExpr:
			if f, ok := isRecvSel(x); ok {
				k := "rd"
				if write {
					k = "wr"
				}
				acts = append(acts, act{k, f, held, line(x)})
				return
			}
			walkExpr(x.X, write)
			return
		case *ast.IndexExpr:
			walkExpr(x.X, write)
			walkExpr(x.Index, false)
			return
		case *ast.SliceExpr:
			walkExpr(x.X, write)
			walkExpr(x.Low, false)
			walkExpr(x.High, false)
			return
		case *ast.UnaryExpr:
			walkExpr(x.X, write)
			return
		case *ast.StarExpr:
			walkExpr(x.X, write)
			return
		case *ast.BinaryExpr:
			walkExpr(x.X, false)
			walkExpr(x.Y, false)
			return
		case *ast.ParenExpr:
			walkExpr(x.X, write)
			return
		case *ast.CompositeLit:
			for _, el := range x.Elts {
				if kv, ok := el.(*ast.KeyValueExpr); ok {
					walkExpr(kv.Value, false)
				} else {
					walkExpr(el, false)
				}
			}
			return
		case *ast.TypeAssertExpr:
			walkExpr(x.X, false)
			return
		case *ast.FuncLit:
			return
		case *ast.Ident, *ast.BasicLit:
			return
		case ast.Expr:
			return
		}
	}
	var walkStmt func(s ast.Stmt)
	walkStmts := func(l []ast.Stmt) {
		for _, s := range l {
			walkStmt(s)
		}
	}
	walkStmt = func(s ast.Stmt) {
		switch x := s.(type) {
		case nil:
		case *ast.ExprStmt:
			walkExpr(x.X, false)
		case *ast.AssignStmt:
			for _, r := range x.Rhs {
				walkExpr(r, false)
			}
			for _, l := range x.Lhs {
				walkExpr(l, true)
			}
		case *ast.IncDecStmt:
			walkExpr(x.X, true)
		case *ast.DeferStmt:
			// defer recv.lock.Unlock(): the lock stays held until the function returns
			if se, ok := x.Call.Fun.(*ast.SelectorExpr); ok {
				if inner, ok := se.X.(*ast.SelectorExpr); ok {
					if f, ok := isRecvSel(inner); ok && f == "lock" && se.Sel.Name == "Unlock" {
						deferred = true
						return
					}
				}
			}
			walkExpr(x.Call, false)
		case *ast.GoStmt:
			for _, a := range x.Call.Args {
				walkExpr(a, false)
			}
			name := exprStr(x.Call.Fun)
			if se, ok := x.Call.Fun.(*ast.SelectorExpr); ok {
				if m, ok := isRecvSel(se); ok {
					name = m
				}
			}
			acts = append(acts, act{"go", name, held, line(x)})
		case *ast.ReturnStmt:
			for _, r := range x.Results {
				walkExpr(r, false)
			}
		case *ast.BlockStmt:
			walkStmts(x.List)
		case *ast.IfStmt:
			walkStmt(x.Init)
			walkExpr(x.Cond, false)
			walkStmt(x.Body)
			walkStmt(x.Else)
		case *ast.ForStmt:
			walkStmt(x.Init)
			walkExpr(x.Cond, false)
			walkStmt(x.Body)
			walkStmt(x.Post)
		case *ast.RangeStmt:
			walkExpr(x.X, false)
			walkStmt(x.Body)
		case *ast.SwitchStmt:
			walkStmt(x.Init)
			walkExpr(x.Tag, false)
			walkStmt(x.Body)
		case *ast.CaseClause:
			for _, e := range x.List {
				walkExpr(e, false)
			}
			walkStmts(x.Body)
		case *ast.DeclStmt, *ast.BranchStmt, *ast.EmptyStmt, *ast.LabeledStmt:
		default:
		}
	}
	walkStmt(fd.Body)
	if deferred {
		acts = append(acts, act{"rel", "lock(deferred)", false, fset.Position(fd.End()).Line})
	}
	out[fn] = acts
}

func accessJSON(m map[string][]act) map[string][]string {
	out := map[string][]string{}
	for k, l := range m {
		for _, a := range l {
			out[k] = append(out[k], fmt.Sprintf("%s %s %v @%d", a.kind, a.name, a.held, a.line))
		}
	}
	return out
}

func identOf(s string) string {
	var b strings.Builder
	for _, c := range s {
		if (c >= 'a' && c <= 'z') || (c >= 'A' && c <= 'Z') || (c >= '0' && c <= '9') || c == '_' {
			b.WriteRune(c)
		} else {
			b.WriteByte('_')
		}
	}
	return b.String()
}

type tlsStruct struct {
	fn  string
	kvs [][3]string
}

func tlsStructsJSON(l []tlsStruct) map[string][][3]string {
	out := map[string][][3]string{}
	for _, x := range l {
		out[x.fn] = x.kvs
	}
	return out
}

func collectTLSStruct(fn string, fd *ast.FuncDecl, out *[]tlsStruct) {
	ast.Inspect(fd.Body, func(n ast.Node) bool {
		cl, ok := n.(*ast.CompositeLit)
		if !ok || cl.Type == nil || exprStr(cl.Type) != "tls.Config" {
			return true
		}
		t := tlsStruct{fn: fn}
		for _, e := range cl.Elts {
			if k, ok := e.(*ast.KeyValueExpr); ok {
				c := ""
				if cv, ok := constVal(k.Value); ok {
					if tv := info.Types[k.Value]; tv.Value != nil && tv.Value.Kind() == constant.Int {
						c = cv
					} else if tv.Value != nil && tv.Value.Kind() == constant.Bool {
						if cv == "true" {
							c = "1"
						} else {
							c = "0"
						}
					}
				}
				t.kvs = append(t.kvs, [3]string{exprStr(k.Key), exprStr(k.Value), c})
			} else {
				t.kvs = append(t.kvs, [3]string{"<positional>", exprStr(e), ""})
			}
		}
		*out = append(*out, t)
		return true
	})
}

// skeletonOf: control structure and calls of a function body, nothing else.
// Each token is kind, name, args (joined by \x1f for transport, split again when printing).
func skeletonOf(b *ast.BlockStmt) []string {
	var out []string
	tok := func(kind, name string, args ...string) {
		out = append(out, kind+"\x1f"+name+"\x1f"+strings.Join(args, "\x1e"))
	}
	var callsIn func(e ast.Node)
	callsIn = func(e ast.Node) {
		ast.Inspect(e, func(n ast.Node) bool {
			if c, ok := n.(*ast.CallExpr); ok {
				name := exprStr(c.Fun)
				if strings.Contains(name, "logger.") || name == "verifYield" {
					return false
				}
				var args []string
				for _, a := range c.Args {
					if id, ok := a.(*ast.Ident); ok {
						args = append(args, id.Name)
					} else if ce, ok := a.(*ast.CallExpr); ok {
						args = append(args, exprStr(ce.Fun)+"(..)")
					} else if bl, ok := a.(*ast.BasicLit); ok {
						args = append(args, bl.Value)
					} else if es := strings.Join(strings.Fields(exprStr(a)), " "); len(es) <= 48 {
						args = append(args, es) // short expressions are kept verbatim
					} else {
						args = append(args, "_")
					}
				}
				tok("call", name, args...)
			}
			return true
		})
	}
	var walk func(s ast.Stmt)
	walk = func(s ast.Stmt) {
		switch x := s.(type) {
		case nil:
		case *ast.BlockStmt:
			for _, t := range x.List {
				walk(t)
			}
		case *ast.IfStmt:
			if x.Init != nil {
				walk(x.Init)
			}
			tok("if", exprStr(x.Cond))
			walk(x.Body)
			if x.Else != nil {
				tok("else", "")
				walk(x.Else)
			}
			tok("end", "")
		case *ast.ForStmt:
			tok("loop", "")
			walk(x.Body)
			tok("end", "")
		case *ast.RangeStmt:
			tok("loop", exprStr(x.X))
			walk(x.Body)
			tok("end", "")
		case *ast.SwitchStmt:
			tok("switch", exprStr(x.Tag))
			for _, c := range x.Body.List {
				cc := c.(*ast.CaseClause)
				var vals []string
				for _, e := range cc.List {
					if v, ok := constVal(e); ok {
						vals = append(vals, v)
					} else {
						vals = append(vals, exprStr(e))
					}
				}
				if cc.List == nil {
					vals = []string{"default"}
				}
				tok("case", "", vals...)
				for _, t := range cc.Body {
					walk(t)
				}
			}
			tok("end", "")
		case *ast.ReturnStmt:
			tok("return", "")
		case *ast.GoStmt:
			tok("go", exprStr(x.Call.Fun))
		case *ast.DeferStmt:
			tok("defer", exprStr(x.Call.Fun))
		case *ast.BranchStmt:
			tok(x.Tok.String(), "")
		case *ast.AssignStmt:
			for i, l := range x.Lhs {
				if se, ok := l.(*ast.SelectorExpr); ok {
					// ("set", target, [rhs verbatim when short, its constant value when it has one])
					if len(x.Lhs) == len(x.Rhs) {
						es := strings.Join(strings.Fields(exprStr(x.Rhs[i])), " ")
						if len(es) > 48 {
							es = "_"
						}
						cv := ""
						if tv, ok := info.Types[x.Rhs[i]]; ok && tv.Value != nil {
							cv = tv.Value.ExactString()
						}
						tok("set", exprStr(se), es, cv)
					} else {
						tok("set", exprStr(se))
					}
				}
			}
			for _, r := range x.Rhs {
				callsIn(r)
			}
			// plain assignments to local variables: ("assign", lhs, [rhs]) (rhs verbatim when short)
			if len(x.Lhs) == len(x.Rhs) {
				for i, l := range x.Lhs {
					if id, ok := l.(*ast.Ident); ok {
						if _, isCall := x.Rhs[i].(*ast.CallExpr); isCall && len(x.Rhs) == 1 {
							continue
						}
						es := strings.Join(strings.Fields(exprStr(x.Rhs[i])), " ")
						if len(es) > 48 {
							es = "_"
						}
						tok("assign", id.Name, es)
					}
				}
			}
			// results of a call bound to variables: ("bind", callee, [lhs…])
			if len(x.Rhs) == 1 {
				if c, ok := x.Rhs[0].(*ast.CallExpr); ok {
					name := exprStr(c.Fun)
					if !strings.Contains(name, "logger.") {
						var lhs []string
						for _, l := range x.Lhs {
							lhs = append(lhs, strings.Join(strings.Fields(exprStr(l)), " "))
						}
						tok("bind", name, lhs...)
					}
				}
			}
		case *ast.ExprStmt:
			callsIn(x.X)
		default:
		}
	}
	walk(b)
	return out
}
