#!/usr/bin/env python3
"""Writes MANIFEST.json from bin/props.json (claimed checks) and the property list."""
import json
V = '/verif'
props = json.load(open(f'{V}/bin/props.json'))
allp = [json.loads(l)['id'] for l in open(f'{V}/properties.jsonl')]
na_reasons = json.load(open(f'{V}/bin/not_applicable.json'))
checks = []
for pid in allp:
    if pid not in props:
        continue
    s = props[pid]
    checks.append({
        'property_id': pid,
        'quick_cmd': f'bin/check {pid} --tier quick',
        'thorough_cmd': f'bin/check {pid} --tier thorough',
        'evidence_file': f'/verif/evidence/{pid}.json',
        'replay_cmd_template': f'bin/check {pid} --replay {{path}}',
        'engine': 'lean4-proof+correspondence',
        'level_claimed': {
            'category': s.get('level', 'proof'),
            'text': s.get('level_text', ''),
            'design_ref': s.get('design_ref', f'DESIGN.md section 6 ({pid})'),
        },
        'level_note': s.get('level_note', ''),
        'technique': s.get('technique', 'Lean 4 theorems about an executable model + regenerated fact ties + differential correspondence check'),
    })
man = {
    'version': 1,
    'setup_cmd': 'bin/setup',
    'hooks': {
        'guard': 'verif',
        'enable': 'go build -tags verif (the harness module replaces github.com/simonvetter/modbus by /repo)',
        'baseline_off_cmd': 'bin/baseline_off',
        'source_commits': ['a0e22ef', '8c5ea20', '71f1e2b', '56d4afc'],
        'add_only': True,
    },
    'engines': [
        {'name': 'lean4-proof+correspondence', 'path': '/verif/lean', 'serves_properties': [c['property_id'] for c in checks],
         'kind_free_text': 'Lean 4.33 model + theorems (lake project), facts regenerated from /repo by extract/ and re-checked by the kernel (Tie/*), Go harness diffing the real code against the compiled model driver mbmodel'},
    ],
    'checks': checks,
    'not_applicable': [{'property_id': p, 'reason': na_reasons.get(p, 'no check built yet')} for p in allp if p not in props],
    'notes': 'Every check regenerates the facts from /repo, rebuilds the harness against /repo with -tags verif, and re-checks the Lean theorems; see DESIGN.md.',
}
json.dump(man, open(f'{V}/MANIFEST.json', 'w'), indent=1)
print('checks:', [c['property_id'] for c in checks], 'not_applicable:', [x['property_id'] for x in man['not_applicable']])
