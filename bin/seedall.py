#!/usr/bin/env python3
"""bin/seedall.py [name ...]

Re-runs every kept seeded change (or the named ones) against the CURRENT machinery and the current
HEAD of /repo: for each /verif/seeded/<name>/ the change is confirmed again in a scratch worktree
and the property's checks are run with the change applied to /repo (bin/seedtest.py does both and
reverts /repo). Prints one line per change and a summary; exits 1 if a change is no longer
confirmed or no longer detected. Evidence and replays of these runs go to seeded/<name>/ and are
not the committed evidence.
"""
import glob, json, os, subprocess, sys

V = '/verif'
names = sys.argv[1:] or sorted(os.path.basename(os.path.dirname(p)) for p in glob.glob(f'{V}/seeded/*/meta.json'))
bad = []
for n in names:
    d = f'{V}/seeded/{n}'
    meta = json.load(open(f'{d}/meta.json'))
    checks = ','.join(meta.get('detections', {}).keys()) or meta['property']
    notes = f'{d}/notes.md'
    cmd = [f'{V}/bin/seedtest.py', n, meta['property'], f'{d}/patch.diff', f"{d}/{meta['demonstration']}"]
    if os.path.exists(notes):
        cmd.append(notes)
    cmd += ['--checks', checks]
    p = subprocess.run(cmd, cwd=V, stdout=subprocess.PIPE, stderr=subprocess.STDOUT, text=True)
    last = [l for l in p.stdout.strip().splitlines() if l.strip()][-1:] or ['(no output)']
    m = json.load(open(f'{d}/meta.json'))
    inp = any(x.get('with_failing_input') for x in m.get('detections', {}).values())
    print(f"{n}: confirmed={m.get('confirmed')} detected={m.get('detected')} failing_input={inp}", flush=True)
    if not (m.get('confirmed') and m.get('detected')):
        bad.append(n)
        print('   ', last[0][:300])
    subprocess.run(['rm', '-rf', f'{d}/evidence'])
print(f'{len(names) - len(bad)}/{len(names)} seeded changes confirmed and detected')
if bad:
    print('NOT OK:', ' '.join(bad))
sys.exit(1 if bad else 0)
