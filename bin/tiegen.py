#!/usr/bin/env python3
"""Generates lean/ModbusVerif/Tie/<ID>.lean from the facts extracted from the CURRENT /repo.

Run by hand when a new baseline of /repo is accepted (after reviewing the diff of the
normalised sources under .work/norm against the model); the generated files are committed.
On every check run the facts are regenerated from /repo and these files are re-checked by the
Lean kernel: an edited function, constant, table, tls.Config literal or lock/access table makes
the corresponding theorem fail to check.
"""
import json, os, re, sys

import subprocess
V = '/verif'
# the baseline is ALWAYS taken from a clean, committed /repo: refuse otherwise, and re-extract now
if subprocess.run(['git', '-C', '/repo', 'status', '--porcelain'], capture_output=True, text=True).stdout.strip():
    sys.exit('tiegen: /repo has uncommitted changes; refusing to take a baseline from it')
subprocess.run([f'{V}/.work/extract', '/repo', f'{V}/lean/ModbusVerif/Generated/Facts.lean', f'{V}/.work/norm'], cwd='/repo', check=True)
facts = json.load(open(f'{V}/.work/facts.json'))
fps = facts['fingerprints']

CLIENT_PUBLIC = [k for k in fps if k.startswith('ModbusClient.') and k.split('.')[1][0].isupper()
                 and k.split('.')[1] not in ('Open', 'Close', 'SetUnitId', 'SetEncoding')]
CLIENT_HELPERS = ['ModbusClient.readBools', 'ModbusClient.readRegisters', 'ModbusClient.writeRegisters',
                  'ModbusClient.readBytes', 'ModbusClient.writeBytes', 'ModbusClient.encoding',
                  'ModbusClient.executeRequest']
ENC = ['uint16ToBytes', 'uint16sToBytes', 'bytesToUint16', 'bytesToUint16s', 'bytesToUint32s', 'uint32ToBytes',
       'bytesToFloat32s', 'float32ToBytes', 'bytesToUint64s', 'uint64ToBytes', 'bytesToFloat64s', 'float64ToBytes',
       'encodeBools', 'decodeBools']
CRC = ['crc.init', 'crc.add', 'crc.value', 'crc.isEqual']
TCPT = ['tcpTransport.ExecuteRequest', 'tcpTransport.ReadRequest', 'tcpTransport.WriteResponse',
        'tcpTransport.readResponse', 'tcpTransport.readMBAPFrame', 'tcpTransport.assembleMBAPFrame',
        'tcpTransport.Close', 'newTCPTransport']
RTUT = ['rtuTransport.ExecuteRequest', 'rtuTransport.readRTUFrame', 'rtuTransport.assembleRTUFrame',
        'rtuTransport.Close', 'expectedResponseLenth', 'discard', 'newRTUTransport', 'serialCharTime']
WRAP = [k for k in fps if k.startswith(('udpSockWrapper.', 'tlsSockWrapper.', 'serialPortWrapper.'))] + \
       ['newUDPSockWrapper', 'newTLSSockWrapper', 'newSerialPortWrapper']
SRV_SESSION = ['ModbusServer.handleTransport', 'mapErrorToExceptionCode']
SRV_LIFE = ['ModbusServer.Start', 'ModbusServer.Stop', 'ModbusServer.acceptTCPClients',
            'ModbusServer.handleTCPClient', 'NewServer']
CLIENT_ALL = [k for k in fps if k.startswith('ModbusClient.')]
CLI = [k for k in fps if k.startswith('cli.')]

FC_CONSTS = ['fcReadCoils', 'fcReadDiscreteInputs', 'fcReadHoldingRegisters', 'fcReadInputRegisters',
             'fcWriteSingleCoil', 'fcWriteSingleRegister', 'fcWriteMultipleCoils', 'fcWriteMultipleRegisters',
             'fcMaskWriteRegister']
EX_CONSTS = [k for k in dict(re.findall(r'\("(\w+)", (-?\d+)\)', ' '.join(facts['intConsts']))) if k.startswith('ex')]
ENC_CONSTS = ['BIG_ENDIAN', 'LITTLE_ENDIAN', 'HIGH_WORD_FIRST', 'LOW_WORD_FIRST', 'HOLDING_REGISTER', 'INPUT_REGISTER']
KIND_CONSTS = ['modbusRTU', 'modbusRTUOverTCP', 'modbusRTUOverUDP', 'modbusTCP', 'modbusTCPOverTLS', 'modbusTCPOverUDP']
LEN_CONSTS = ['maxTCPFrameLength', 'mbapHeaderLength', 'maxRTUFrameLength']

PROPS = {
 'C01': dict(funcs=CLIENT_PUBLIC + CLIENT_HELPERS + ENC + CRC + ['tcpTransport.ExecuteRequest', 'tcpTransport.assembleMBAPFrame', 'rtuTransport.ExecuteRequest', 'rtuTransport.assembleRTUFrame', 'NewClient', 'ModbusClient.SetUnitId', 'ModbusClient.SetEncoding'],
             consts=FC_CONSTS + ENC_CONSTS + KIND_CONSTS, tables=['ModbusClient.readRegisters#regType'], crc=True),
 'C02': dict(funcs=CLIENT_PUBLIC + CLIENT_HELPERS + ENC + CRC + TCPT + RTUT + ['mapExceptionCodeToError'],
             consts=FC_CONSTS + EX_CONSTS + LEN_CONSTS + ENC_CONSTS, tables=['mapExceptionCodeToError#exceptionCode', 'expectedResponseLenth#responseCode'], crc=True),
 'C03': dict(funcs=SRV_SESSION + ['tcpTransport.ReadRequest', 'tcpTransport.WriteResponse', 'tcpTransport.readMBAPFrame', 'tcpTransport.assembleMBAPFrame'] + ENC,
             consts=FC_CONSTS + EX_CONSTS + LEN_CONSTS, tables=['mapErrorToExceptionCode#err']),
 'C04': dict(funcs=CLIENT_PUBLIC + CLIENT_HELPERS + ENC + TCPT + SRV_SESSION + SRV_LIFE + ['mapExceptionCodeToError', 'ModbusClient.Open', 'ModbusClient.SetEncoding', 'ModbusClient.SetUnitId'],
             consts=FC_CONSTS + EX_CONSTS + ENC_CONSTS, tables=['mapErrorToExceptionCode#err', 'mapExceptionCodeToError#exceptionCode']),
 'C05': dict(funcs=TCPT + ['ModbusClient.executeRequest'], consts=LEN_CONSTS),
 'C06': dict(funcs=CRC + RTUT + ['ModbusClient.executeRequest', 'uint16ToBytes', 'bytesToUint16'], consts=['maxRTUFrameLength'] + FC_CONSTS,
             tables=['expectedResponseLenth#responseCode'], crc=True),
 'C07': dict(funcs=CLIENT_HELPERS + TCPT + RTUT + WRAP + ['ModbusClient.executeRequest'], consts=LEN_CONSTS),
 'C08': dict(funcs=TCPT + RTUT + CLIENT_ALL + ['NewClient'], access='ModbusClient.'),
 'C09': dict(funcs=['ModbusServer.handleTransport', 'ModbusServer.startTLS'] + SRV_LIFE + ['tcpTransport.ReadRequest'], access='ModbusServer.'),
 'C10': dict(funcs=['ModbusServer.handleTransport'] + SRV_LIFE, access='ModbusServer.'),
 'C11': dict(funcs=SRV_LIFE + SRV_SESSION + TCPT, access='ModbusServer.'),
 'C12': dict(funcs=WRAP + ['tcpTransport.ExecuteRequest', 'rtuTransport.ExecuteRequest'] + ['tcpTransport.readMBAPFrame', 'tcpTransport.readResponse', 'tcpTransport.ReadRequest', 'rtuTransport.readRTUFrame', 'udpSockWrapper.Read', 'newUDPSockWrapper', 'ModbusServer.handleTransport', 'discard'], consts=LEN_CONSTS),
 'C13': dict(funcs=TCPT + CLIENT_ALL + ['ModbusClient.Open', 'ModbusClient.Close', 'newRTUTransport', 'rtuTransport.ExecuteRequest'] + ['tcpTransport.readMBAPFrame', 'tcpTransport.readResponse', 'tcpTransport.ReadRequest', 'rtuTransport.readRTUFrame', 'ModbusServer.handleTransport', 'ModbusServer.handleTCPClient', 'ModbusServer.acceptTCPClients', 'ModbusClient.Open', 'ModbusClient.Close', 'newTCPTransport', 'newRTUTransport'], consts=LEN_CONSTS),
 'C14': dict(funcs=['ModbusServer.acceptTCPClients', 'ModbusServer.handleTransport'] + ['ModbusClient.Open', 'NewClient', 'NewServer', 'ModbusServer.startTLS', 'ModbusServer.handleTCPClient'] + [k for k in fps if k.startswith('tlsSockWrapper.')] + ['newTLSSockWrapper'], tls=True),
 'C15': dict(funcs=['ModbusServer.handleTransport'] + ['ModbusServer.extractRole', 'ModbusServer.startTLS', 'ModbusServer.handleTCPClient', 'var.modbusRoleOID']),
 'C16': dict(funcs=['NewClient', 'NewServer', 'ModbusClient.Open', 'ModbusClient.SetEncoding', 'newRTUTransport', 'serialPortWrapper.Open', 'newSerialPortWrapper', 'ModbusServer.Start'],
             consts=KIND_CONSTS + ENC_CONSTS + ['PARITY_NONE', 'PARITY_EVEN', 'PARITY_ODD'], tables=['NewClient#clientType', 'NewServer#serverType', 'ModbusClient.Open#mc.transportType']),
 'C17': dict(funcs=ENC, consts=ENC_CONSTS),
 'C18': dict(funcs=WRAP + ['tcpTransport.readResponse'] + CLIENT_PUBLIC + CLIENT_HELPERS + ENC + ['tcpTransport.assembleMBAPFrame', 'tcpTransport.readMBAPFrame', 'rtuTransport.assembleRTUFrame', 'rtuTransport.readRTUFrame']),
 'C19': dict(funcs=['rtuTransport.readRTUFrame'] + ['newRTUTransport', 'serialCharTime', 'rtuTransport.ExecuteRequest', 'rtuTransport.WriteResponse', 'discard']),
 'C20': dict(funcs=CLI + CLIENT_PUBLIC + CLIENT_HELPERS + ENC + ['NewClient', 'ModbusClient.SetEncoding', 'ModbusClient.SetUnitId'], consts=FC_CONSTS + ENC_CONSTS),
}

def lstr(s):
    return '"' + s.replace('\\', '\\\\').replace('"', '\\"').replace('\n', '\\n').replace('\t', ' ') + '"'

def ident(s):
    return re.sub(r'[^A-Za-z0-9_]', '_', s)

consts = dict(re.findall(r'\("(\w+)", (-?\d+)\)', ' '.join(facts['intConsts'])))

def gen(pid, spec):
    out = [f'/- GENERATED by bin/tiegen.py from the accepted baseline of /repo; committed.',
           f'   Re-checked against the facts regenerated from /repo on every run of `bin/check {pid}`. -/',
           'import ModbusVerif.Generated.Facts']
    if spec.get('crc'):
        out.append('import ModbusVerif.Model.Crc')
    out += [f'namespace Modbus.Tie.{pid}', 'open Modbus.Gen', '']
    out.append('theorem no_type_errors : Gen.typeErrors = 0 := by decide\n')
    n = 1
    for f in sorted(set(spec.get('funcs', []))):
        if f not in fps:
            print(f'warning: {pid}: no fingerprint for {f}', file=sys.stderr)
            continue
        out.append(f'theorem fp_{ident(f)} : Gen.fp_{ident(f)} = 0x{fps[f]} := by decide')
        n += 1
    out.append('')
    for c in sorted(set(spec.get('consts', []))):
        out.append(f'theorem const_{ident(c)} : Gen.const_{c} = {consts[c]} := by decide')
        n += 1
    out.append('')
    for t in spec.get('tables', []):
        rows = facts['switchTables'][t]
        out.append(f'theorem table_{ident(t)} : Gen.table_{ident(t)} = [\n    ' +
                   ',\n    '.join(lstr(r) for r in rows) + '] := by decide +kernel')
        n += 1
    if spec.get('tls'):
        out.append('theorem tls_configs : Gen.tlsConfigs = [\n    ' + ',\n    '.join(facts['tlsConfigs']) + '] := by decide +kernel')
        n += 1
    if spec.get('crc'):
        out.append('set_option maxRecDepth 100000 in\ntheorem crc_table : Gen.crcTable = Crc.table.toList.map BitVec.toNat := by decide +kernel')
        n += 1
    if spec.get('access'):
        for m in sorted(facts['accessTables']):
            if not m.startswith(spec['access']):
                continue
            rows = []
            for a in facts['accessTables'][m]:
                kind, rest = a.split(' ', 1)
                name, held, _ = rest.rsplit(' ', 2)
                rows.append(f'⟨.{kind}, {lstr(name)}, {held}⟩')
            out.append(f'theorem access_{ident(m)} : Gen.access_{ident(m)} = [{", ".join(rows)}] := by decide +kernel')
            n += 1
    out += ['', f'end Modbus.Tie.{pid}', '']
    open(f'{V}/lean/ModbusVerif/Tie/{pid}.lean', 'w').write('\n'.join(out))
    return n

total = {}
for pid, spec in PROPS.items():
    total[pid] = gen(pid, spec)
json.dump(total, open(f'{V}/lean/ModbusVerif/Tie/obligations.json', 'w'), indent=1, sort_keys=True)
print(total)
