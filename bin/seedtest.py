#!/usr/bin/env python3
"""bin/seedtest.py <name> <property> <patch.diff> <demo_test.go> [notes.md] [--checks C01,C02]

Confirms a seeded change (applies, builds, the 30 baseline tests still pass, the demonstration
fails with it and passes without it) in a scratch worktree, then applies it to /repo, runs the
property's check(s), reverts /repo, and records everything under /verif/seeded/<name>/.
"""
import json, os, re, shutil, subprocess, sys, time

V = '/verif'
env = dict(os.environ, GOFLAGS='-mod=mod', GOPROXY='off', GOSUMDB='off', GOTOOLCHAIN='local')


def sh(cmd, cwd=None, timeout=1800, extra=None):
    e = dict(env)
    if extra:
        e.update(extra)
    p = subprocess.run(cmd, cwd=cwd, env=e, stdout=subprocess.PIPE, stderr=subprocess.STDOUT, text=True, timeout=timeout)
    return p.returncode, p.stdout


def main():
    a = sys.argv[1:]
    checks = None
    if '--checks' in a:
        i = a.index('--checks')
        checks = a[i + 1].split(',')
        a = a[:i] + a[i + 2:]
    name, prop, patch, demo = a[:4]
    notes = a[4] if len(a) > 4 else None
    checks = checks or [prop]
    out = f'{V}/seeded/{name}'
    os.makedirs(out, exist_ok=True)
    def cp(a, b):
        if os.path.abspath(a) != os.path.abspath(b):
            shutil.copy(a, b)
    cp(patch, f'{out}/patch.diff')
    cp(demo, f'{out}/' + os.path.basename(demo))
    if notes and os.path.exists(notes):
        cp(notes, f'{out}/notes.md')
    meta = {'name': name, 'property': prop, 'patch': 'patch.diff', 'demonstration': os.path.basename(demo), 'ran': []}
    tests = re.findall(r'^func (Test\w+)\(', open(demo).read(), flags=re.M)
    ntxt = open(notes).read() if (notes and os.path.exists(notes)) else ''
    race = []
    if re.search(r'go test[^\n]*-race', ntxt):
        race.append('-race')
    if re.search(r'go test[^\n]*-tags verif', ntxt):
        race += ['-tags', 'verif']
    meta['demo_needs_race'] = bool(race)
    runre = '^(' + '|'.join(tests) + ')$'
    wt = f'/tmp/seedwt-{name}'
    sh(['git', '-C', '/repo', 'worktree', 'remove', '--force', wt])
    rc, o = sh(['git', '-C', '/repo', 'worktree', 'add', '--detach', wt, 'HEAD'])
    try:
        shutil.copy(demo, wt)
        rc0, o0 = sh(['go', 'test'] + race + ['-vet=off', '-count=1', '-run', runre, '.'], cwd=wt)
        meta['demo_without_change'] = 'pass' if rc0 == 0 else 'FAIL'
        rc, o = sh(['git', 'apply', f'{out}/patch.diff'], cwd=wt)
        meta['applies'] = rc == 0
        rcb, ob = sh(['go', 'build', '.'], cwd=wt)
        meta['builds'] = rcb == 0
        rc1, o1 = sh(['go', 'test'] + race + ['-vet=off', '-count=1', '-run', runre, '.'], cwd=wt)
        meta['demo_with_change'] = 'pass' if rc1 == 0 else 'fail'
        os.remove(os.path.join(wt, os.path.basename(demo)))
        # baseline tests with the change
        base = json.load(open('/root/.vp/BASELINE.json'))['stable_pass']
        best = 0
        for attempt in range(4):   # TestUDPSockWrapper binds a fixed port: retry when another job holds it
            rc, o = sh(['go', 'test', '-json', '-vet=off', '-count=1', '.'], cwd=wt)
            st = {}
            for line in o.splitlines():
                try:
                    ev = json.loads(line)
                except Exception:
                    continue
                if ev.get('Test') and ev.get('Action') in ('pass', 'fail'):
                    st[f"{ev['Package']}::{ev['Test']}"] = ev['Action']
            best = max(best, sum(1 for t in base if st.get(t) == 'pass'))
            if best == len(base):
                break
            time.sleep(2)
        meta['baseline_tests_passing_with_change'] = best
        meta['baseline_tests_total'] = len(base)
    finally:
        sh(['git', '-C', '/repo', 'worktree', 'remove', '--force', wt])
    meta['confirmed'] = bool(meta.get('applies') and meta.get('builds') and meta['demo_without_change'] == 'pass'
                             and meta['demo_with_change'] == 'fail'
                             and meta['baseline_tests_passing_with_change'] == meta['baseline_tests_total'])
    # run the checks against /repo with the change applied
    rc, o = sh(['git', '-C', '/repo', 'status', '--porcelain'])
    if o.strip():
        print('refusing: /repo has uncommitted changes'); return 2
    detections = {}
    try:
        rc, o = sh(['git', '-C', '/repo', 'apply', f'{out}/patch.diff'])
        if rc != 0:
            print('patch does not apply to /repo:', o); return 2
        # the checks run on scratch copies of the Lean project and the work directory, so that the
        # facts regenerated from the modified /repo never land in /verif/lean
        scratch = f'/tmp/seedrun-{os.getpid()}'
        sh(['rm', '-rf', scratch]); os.makedirs(scratch)
        sh(['rsync', '-a', f'{V}/lean/', f'{scratch}/lean/'])
        os.makedirs(f'{scratch}/work', exist_ok=True)
        for c in checks:
            t0 = time.time()
            rc, o = sh([f'{V}/bin/check', c, '--tier', 'quick'], cwd=V,
                       extra={'VERIF_EVIDENCE_DIR': f'{out}/evidence', 'VERIF_REPLAY_DIR': out,
                              'VERIF_LEAN_DIR': f'{scratch}/lean', 'VERIF_WORK_DIR': f'{scratch}/work'})
            vio = [l for l in o.splitlines() if l.startswith('VIOLATION')]
            detections[c] = {'exit': rc, 'violation_line': vio[0] if vio else None,
                             'with_failing_input': bool(vio) and 'no-failing-input-found' not in vio[0],
                             'wall_s': round(time.time() - t0, 1),
                             'output_head': '\n'.join(o.splitlines()[:14])[:3000]}
            meta['ran'].append(f'git -C /repo apply seeded/{name}/patch.diff && bin/check {c} --tier quick')
    finally:
        sh(['git', '-C', '/repo', 'checkout', '--', '.'])
        sh(['git', '-C', '/repo', 'clean', '-fdq'])
        sh(['rm', '-rf', f'/tmp/seedrun-{os.getpid()}'])
    meta['detections'] = detections
    meta['detected'] = any(d['exit'] == 1 and d['violation_line'] for d in detections.values())
    if notes and os.path.exists(notes):
        txt = open(notes).read()
        meta['needs_to_manifest'] = txt[:1500]
    json.dump(meta, open(f'{out}/meta.json', 'w'), indent=1)
    print(json.dumps({k: meta[k] for k in ('name', 'property', 'confirmed', 'detected')}),
          {c: (d['exit'], d['violation_line']) for c, d in detections.items()})
    return 0


if __name__ == '__main__':
    sys.exit(main())
