package main

import (
	"fmt"
	"os"
	"syscall"
	"time"
	"unsafe"

	"github.com/simonvetter/modbus"
)

// ptyFirstRequest opens a pseudo terminal, points an rtu:// client at its slave side and returns the
// first request frame read from the master side. note != "" means the sandbox could not do it.
func ptyFirstRequest(op *Op) (frame []byte, note string) {
	m, err := os.OpenFile("/dev/ptmx", os.O_RDWR|syscall.O_NOCTTY, 0)
	if err != nil {
		return nil, "no /dev/ptmx: " + err.Error()
	}
	defer m.Close()
	var n uint32
	if _, _, e := syscall.Syscall(syscall.SYS_IOCTL, m.Fd(), syscall.TIOCGPTN, uintptr(unsafe.Pointer(&n))); e != 0 {
		return nil, "TIOCGPTN failed"
	}
	var unlock int32
	if _, _, e := syscall.Syscall(syscall.SYS_IOCTL, m.Fd(), syscall.TIOCSPTLCK, uintptr(unsafe.Pointer(&unlock))); e != 0 {
		return nil, "TIOCSPTLCK failed"
	}
	slave := fmt.Sprintf("/dev/pts/%d", n)
	mc, err := modbus.NewClient(&modbus.ClientConfiguration{URL: "rtu://" + slave, Speed: 115200, Timeout: 100 * time.Millisecond, Logger: quietLog})
	if err != nil {
		return nil, "NewClient: " + err.Error()
	}
	if err := mc.Open(); err != nil {
		return nil, "serial open on pty failed: " + err.Error()
	}
	defer mc.Close()
	done := make(chan struct{})
	go func() { op.Exec(mc); close(done) }()
	buf := make([]byte, 64)
	var got []byte
	deadline := time.Now().Add(time.Second)
	syscall.SetNonblock(int(m.Fd()), true)
	for time.Now().Before(deadline) && len(got) < 8 {
		k, err := syscall.Read(int(m.Fd()), buf)
		if k > 0 {
			got = append(got, buf[:k]...)
		} else if err != nil {
			time.Sleep(2 * time.Millisecond)
		}
	}
	<-done
	if len(got) == 0 {
		return nil, "nothing read from the pty master"
	}
	return got, ""
}
