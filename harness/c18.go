package main

import (
	"fmt"
	"strings"

	"github.com/simonvetter/modbus"
)

// payloadOfFrame extracts the register data of a write-multiple-registers request frame.
func payloadOfFrame(rtu bool, f []byte) []byte {
	w := parseWire(rtu, f)
	if !w.ok || len(w.payload) < 5 {
		return nil
	}
	return w.payload[5:]
}

func init() {
	checks["C18"] = func(tier string, seed uint64, res *Result) error {
		res.Rule = "every write method x slice lengths (odd, even, 0, at the limits) x spare capacity (none, 1, many; slice in the middle of its array) x 4 encodings: the FULL backing array (all cap elements) is snapshotted before and compared after the call, the call is repeated with the same slice and the bytes on the wire must be identical; WriteBytes/WriteRawBytes are also compared with the Lean heap model (array afterwards + payload); all read results (and private copies) are kept and re-compared after every later call on the same client; distinct = (method, length parity, spare class, encoding, scheme)"
		r := NewRng(seed)
		var cs []kv
		for _, kind := range []string{"tcp", "rtuovertcp"} {
			s, err := newSession(kind)
			if err != nil {
				return err
			}
			rtu := isRTUKind(kind)
			type kept struct {
				what string
				live interface{}
				copy string
			}
			var results []kept
			recheck := func(after string) {
				for _, k := range results {
					now := ""
					switch v := k.live.(type) {
					case []byte:
						now = hx(v[:cap(v)])
					case []uint16:
						now = hexU16s(v[:cap(v)])
					case []uint32:
						now = hexU32s(v[:cap(v)])
					case []uint64:
						now = hexU64s(v[:cap(v)])
					case []bool:
						now = bitsStr(v[:cap(v)])
					case []float32:
						now = hexU32s(bits32(v[:cap(v)]))
					case []float64:
						now = hexU64s(bits64(v[:cap(v)]))
					}
					if now != k.copy {
						res.Add(Finding{Kind: "property", Check: "result-stability", Line: k.what + " then " + after, Impl: now, Expect: k.copy,
							Note: "a slice returned by an earlier read was altered by a later call on the same client"})
					}
				}
			}
			echo := func(w wireReq) [][]byte { return [][]byte{w.frame(w.unit, w.fc, validReplyPayload(NewRng(uint64(len(w.payload))), w.fc, w.payload))} }
			n := scale(tier, 250, 4000)
			for i := 0; i < n; i++ {
				e, wo := uint(1+r.Intn(2)), uint(1+r.Intn(2))
				s.setEnc(e, wo)
				l := pickInt(r, []int{0, 1, 2, 3, 4, 5, 7, 8, 9, 16, 17, 121, 122, 123, 245, 246, 247, r.Intn(60)})
				spare := pickInt(r, []int{0, 0, 1, 1, 2, 7, 64})
				off := pickInt(r, []int{0, 0, 0, 1, 5})
				addr := uint16(r.Intn(1000))
				name := writeOps[r.Intn(len(writeOps))]
				key := fmt.Sprintf("%s/%s/len%d/spare%d/e%dw%d", kind, name, l%2, min(spare, 2), e, wo)
				var before, after, wire1, wire2, line string
				run := func(call func() error) (string, error) {
					s.conn.Arm(nil, "timeout")
					s.conn.OnWrite = func(b []byte) {
						wr := parseWire(rtu, b)
						if wr.ok {
							s.conn.Feed(echo(wr)...)
						}
					}
					s.conn.TakeWritten()
					err := call()
					s.conn.OnWrite = nil
					w := s.conn.TakeWritten()
					if len(w) == 0 {
						return "none", err
					}
					return hx(payloadOfFrame(rtu, w[0])), err
				}
				switch name {
				case "WriteBytes", "WriteRawBytes":
					back := r.Bytes(off + l + spare)
					sl := back[off : off+l : off+l+spare]
					before = hx(back)
					f := func() error {
						if name == "WriteBytes" {
							return s.mc.WriteBytes(addr, sl)
						}
						return s.mc.WriteRawBytes(addr, sl)
					}
					wire1, _ = run(f)
					after = hx(back)
					wire2, _ = run(f)
					obs := "0"
					if name == "WriteBytes" {
						obs = "1"
					}
					line = fmt.Sprintf("heapwb %s %s %s %d %d %d", b01(e == 2), obs, before, off, l, l+spare)
					if l > 0 && l <= 246 {
						cs = append(cs, kv{line, "arr=" + after + " out=" + wire1, key})
					}
				case "WriteCoils":
					back := make([]bool, off+l+spare)
					for j := range back {
						back[j] = r.Bool()
					}
					sl := back[off : off+l : off+l+spare]
					before = bitsStr(back)
					wire1, _ = run(func() error { return s.mc.WriteCoils(addr, sl) })
					after = bitsStr(back)
					wire2, _ = run(func() error { return s.mc.WriteCoils(addr, sl) })
				case "WriteRegisters":
					back := make([]uint16, off+l+spare)
					for j := range back {
						back[j] = uint16(r.U64())
					}
					sl := back[off : off+l : off+l+spare]
					before = hexU16s(back)
					wire1, _ = run(func() error { return s.mc.WriteRegisters(addr, sl) })
					after = hexU16s(back)
					wire2, _ = run(func() error { return s.mc.WriteRegisters(addr, sl) })
				case "WriteUint32s", "WriteFloat32s":
					back := make([]uint32, off+l/2+spare)
					for j := range back {
						back[j] = genU32(r)
					}
					sl := back[off : off+l/2 : off+l/2+spare]
					before = hexU32s(back)
					f := func() error { return s.mc.WriteUint32s(addr, sl) }
					if name == "WriteFloat32s" {
						fb := f32s(back)
						fsl := fb[off : off+l/2 : off+l/2+spare]
						f = func() error { err := s.mc.WriteFloat32s(addr, fsl); copy(back, bits32(fb)); return err }
					}
					wire1, _ = run(f)
					after = hexU32s(back)
					wire2, _ = run(f)
				case "WriteUint64s", "WriteFloat64s":
					back := make([]uint64, off+l/4+spare)
					for j := range back {
						back[j] = genU64(r)
					}
					sl := back[off : off+l/4 : off+l/4+spare]
					before = hexU64s(back)
					f := func() error { return s.mc.WriteUint64s(addr, sl) }
					if name == "WriteFloat64s" {
						fb := f64s(back)
						fsl := fb[off : off+l/4 : off+l/4+spare]
						f = func() error { err := s.mc.WriteFloat64s(addr, fsl); copy(back, bits64(fb)); return err }
					}
					wire1, _ = run(f)
					after = hexU64s(back)
					wire2, _ = run(f)
				default:
					continue // single-value writes take no slice
				}
				res.Eval(key, true, fmt.Sprintf("%s %s addr=%d len=%d spare=%d off=%d e=%d w=%d: wire %s", kind, name, addr, l, spare, off, e, wo, shorten(wire1, 60)))
				if before != after {
					res.Add(Finding{Kind: "property", Check: "args-untouched", Line: fmt.Sprintf("%s %s len=%d spare=%d off=%d e=%d w=%d", kind, name, l, spare, off, e, wo), Impl: shorten(after, 400), Expect: shorten(before, 400),
						Note: "the call modified the caller's backing array (contents or spare capacity)"})
				}
				if wire1 != wire2 {
					res.Add(Finding{Kind: "property", Check: "repeat-same-bytes", Line: fmt.Sprintf("%s %s len=%d spare=%d off=%d e=%d w=%d", kind, name, l, spare, off, e, wo), Impl: shorten(wire2, 400), Expect: shorten(wire1, 400),
						Note: "repeating the write with the same buffer sent different bytes"})
				}
				recheck(name)
				// a read whose result is kept
				if i%3 == 0 {
					rop := genOpNamed(r, readOps[r.Intn(len(readOps))], false)
					rop.Addr &= 0x3fff
					rop.RT = uint(r.Intn(2))
					if rop.Qty == 0 || rop.Qty > 20 {
						rop.Qty = uint16(1 + r.Intn(20))
					}
					s.conn.Arm(nil, "timeout")
					s.conn.OnWrite = func(b []byte) {
						wr := parseWire(rtu, b)
						if wr.ok {
							s.conn.Feed(echo(wr)...)
						}
					}
					rt := modbus.RegType(rop.RT)
					var live interface{}
					switch rop.Name {
					case "ReadCoils":
						v, _ := s.mc.ReadCoils(rop.Addr, rop.Qty)
						live = v
					case "ReadDiscreteInputs":
						v, _ := s.mc.ReadDiscreteInputs(rop.Addr, rop.Qty)
						live = v
					case "ReadRegisters":
						v, _ := s.mc.ReadRegisters(rop.Addr, rop.Qty, rt)
						live = v
					case "ReadUint32s":
						v, _ := s.mc.ReadUint32s(rop.Addr, rop.Qty, rt)
						live = v
					case "ReadFloat32s":
						v, _ := s.mc.ReadFloat32s(rop.Addr, rop.Qty, rt)
						live = v
					case "ReadUint64s":
						v, _ := s.mc.ReadUint64s(rop.Addr, rop.Qty, rt)
						live = v
					case "ReadFloat64s":
						v, _ := s.mc.ReadFloat64s(rop.Addr, rop.Qty, rt)
						live = v
					case "ReadBytes":
						v, _ := s.mc.ReadBytes(rop.Addr, rop.Qty, rt)
						live = v
					case "ReadRawBytes":
						v, _ := s.mc.ReadRawBytes(rop.Addr, rop.Qty, rt)
						live = v
					}
					s.conn.OnWrite = nil
					if live != nil {
						k := kept{what: rop.Line(), live: live}
						results = append(results, k)
						results[len(results)-1].copy = func() string {
							switch v := live.(type) {
							case []byte:
								return hx(v[:cap(v)])
							case []uint16:
								return hexU16s(v[:cap(v)])
							case []uint32:
								return hexU32s(v[:cap(v)])
							case []uint64:
								return hexU64s(v[:cap(v)])
							case []bool:
								return bitsStr(v[:cap(v)])
							case []float32:
								return hexU32s(bits32(v[:cap(v)]))
							case []float64:
								return hexU64s(bits64(v[:cap(v)]))
							}
							return ""
						}()
						if len(results) > 60 {
							results = results[1:]
						}
						res.Count("kept-result:" + strings.Split(rop.Name, "s")[0])
					}
					recheck(rop.Name)
				}
			}
		}
		return compareLines("heap", cs, res)
	}
}
