package main

import (
	"runtime"
	"fmt"
	"io"
	"net"
	"strings"
	"sync"
	"time"

	"github.com/simonvetter/modbus"
)

// perSessionHandler keeps one scripted handler (and one event log) per ClientAddr, so that the
// projection of the real concurrent run on one connection can be compared with a single-session
// model run. A request for address 0xBEEF blocks until released (blocked-handler scenario).
type perSessionHandler struct {
	mu       sync.Mutex
	sessions map[string]*scriptedHandler
	events   map[string]*[]string
	block    chan struct{}
	roles    map[string]string
	units    map[string][]uint8
	changed  []string // request arguments that changed while the handler call was blocked
}

func (p *perSessionHandler) get(addr, role string) *scriptedHandler {
	p.mu.Lock()
	defer p.mu.Unlock()
	h, ok := p.sessions[addr]
	if !ok {
		ev := &[]string{}
		h = &scriptedHandler{script: []string{"ok", "ok", "e:ErrServerDeviceBusy", "ok", "short"}, events: ev, evmu: &sync.Mutex{}}
		p.sessions[addr] = h
		p.events[addr] = ev
	}
	if role != "" {
		p.roles[addr] = role
	}
	return h
}

func (p *perSessionHandler) maybeBlock(a uint16) {
	if a == 0xbeef {
		<-p.block
	}
}
func (p *perSessionHandler) HandleCoils(r *modbus.CoilsRequest) ([]bool, error) {
	if r.Addr == 0xbeef && r.IsWrite {
		before := append([]bool(nil), r.Args...)
		<-p.block
		if fmt.Sprint(before) != fmt.Sprint(r.Args) || r.Addr != 0xbeef {
			p.mu.Lock()
			p.changed = append(p.changed, fmt.Sprintf("write coils at 0xbeef: args %v became %v (addr now %#x)", before, r.Args, r.Addr))
			p.mu.Unlock()
		}
		return p.get(r.ClientAddr, r.ClientRole).HandleCoils(r)
	}
	p.maybeBlock(r.Addr)
	return p.get(r.ClientAddr, r.ClientRole).HandleCoils(r)
}
func (p *perSessionHandler) HandleDiscreteInputs(r *modbus.DiscreteInputsRequest) ([]bool, error) {
	p.maybeBlock(r.Addr)
	return p.get(r.ClientAddr, r.ClientRole).HandleDiscreteInputs(r)
}
func (p *perSessionHandler) HandleHoldingRegisters(r *modbus.HoldingRegistersRequest) ([]uint16, error) {
	if r.Addr == 0xbeef && r.IsWrite {
		before := append([]uint16(nil), r.Args...)
		<-p.block
		if fmt.Sprint(before) != fmt.Sprint(r.Args) || r.Addr != 0xbeef {
			p.mu.Lock()
			p.changed = append(p.changed, fmt.Sprintf("write registers at 0xbeef: args %04x became %04x (addr now %#x)", before, r.Args, r.Addr))
			p.mu.Unlock()
		}
		return p.get(r.ClientAddr, r.ClientRole).HandleHoldingRegisters(r)
	}
	p.maybeBlock(r.Addr)
	return p.get(r.ClientAddr, r.ClientRole).HandleHoldingRegisters(r)
}
func (p *perSessionHandler) HandleInputRegisters(r *modbus.InputRegistersRequest) ([]uint16, error) {
	p.maybeBlock(r.Addr)
	return p.get(r.ClientAddr, r.ClientRole).HandleInputRegisters(r)
}

func init() {
	checks["C11"] = func(tier string, seed uint64, res *Result) error {
		res.Rule = "K real TCP connections to one real server, all using the same transaction ids, distinct unit ids; requests interleaved by a seeded scheduler; one connection stalled mid-frame and one whose handler call (a read or a write, in turn) is blocked during the whole run; a connection arriving meanwhile; for every connection the response bytes and the handler calls attributed to it (by ClientAddr) are compared with a single-session run of the Lean server model on that connection's byte stream; every response must arrive on the connection that sent the request with its transaction and unit id; healthy connections must be answered while the others stall; distinct = (round, connection role, request class)"
		r := NewRng(seed).Fork(11000)
		var cases []cexCase
		rounds := scale(tier, 6, 60)
		for round := 0; round < rounds; round++ {
			K := 3 + r.Intn(6)
			h := &perSessionHandler{sessions: map[string]*scriptedHandler{}, events: map[string]*[]string{}, block: make(chan struct{}), roles: map[string]string{}}
			srv, err := modbus.NewServer(&modbus.ServerConfiguration{URL: "tcp://127.0.0.1:0", Timeout: 3 * time.Second, MaxClients: uint(K + 3), Logger: quietLog}, h)
			if err != nil {
				return err
			}
			if err := srv.Start(); err != nil {
				return err
			}
			addr := srv.VerifListenAddr().String()
			conns := make([]net.Conn, K+2)
			sent := make([][]byte, K+2)
			recv := make([][]byte, K+2)
			for i := range conns {
				c, err := net.Dial("tcp", addr)
				if err != nil {
					res.Add(Finding{Kind: "property", Check: "isolation-connect", Line: fmt.Sprintf("round %d conn %d", round, i), Impl: err.Error(), Expect: "connected"})
					continue
				}
				conns[i] = c
			}
			// conn K: stalls in the middle of a frame; conn K+1: its handler call blocks
			stall := mbapFrame(0x0101, 0, byte(K+1), 3, append(be16b(5), be16b(2)...))
			conns[K].Write(stall[:7])
			sent[K] = append(sent[K], stall[:7]...)
			// the blocked handler call is a read or a write, in turn (a lock taken around the
			// dispatch of writes only must show as well)
			var blocked []byte
			switch round % 4 {
			case 0:
				blocked = mbapFrame(0x0101, 0, byte(K+2), 3, append(be16b(0xbeef), be16b(1)...))
			case 1:
				blocked = mbapFrame(0x0101, 0, byte(K+2), 6, append(be16b(0xbeef), 0x12, 0x34))
			case 2:
				blocked = mbapFrame(0x0101, 0, byte(K+2), 16, append(append(be16b(0xbeef), be16b(1)...), 2, 0, 1))
			default:
				blocked = mbapFrame(0x0101, 0, byte(K+2), 5, append(be16b(0xbeef), 0xff, 0x00))
			}
			conns[K+1].Write(blocked)
			sent[K+1] = append(sent[K+1], blocked...)
			time.Sleep(2 * time.Millisecond)
			// interleaved requests on the healthy connections, identical transaction ids
			type job struct{ conn, seq int }
			var jobs []job
			per := 3 + r.Intn(5)
			for i := 0; i < K; i++ {
				for j := 0; j < per; j++ {
					jobs = append(jobs, job{i, j})
				}
			}
			for k := len(jobs) - 1; k > 0; k-- {
				j := r.Intn(k + 1)
				jobs[k], jobs[j] = jobs[j], jobs[k]
			}
			next := make([]int, K)
			var maxLatency time.Duration
			for _, jb := range jobs {
				i := jb.conn
				seq := next[i]
				next[i]++
				fc, pl, _ := genReqPDU(r)
				if len(pl) >= 2 && pl[0] == 0xbe && pl[1] == 0xef {
					pl[1] = 0xee
				}
				txn := uint16(0x0100 + seq) // the same ids on every connection
				frame := mbapFrame(txn, 0, byte(i+1), fc, pl)
				t0 := time.Now()
				conns[i].Write(frame)
				sent[i] = append(sent[i], frame...)
				conns[i].SetReadDeadline(time.Now().Add(500 * time.Millisecond))
				hdr := make([]byte, 7)
				if _, err := io.ReadFull(conns[i], hdr); err != nil {
					// the server closed this connection (malformed request): it stays closed
					recv[i] = append(recv[i], []byte("X")...)
					continue
				}
				n := int(hdr[4])<<8 | int(hdr[5])
				body := make([]byte, n-1)
				io.ReadFull(conns[i], body)
				if d := time.Since(t0); d > maxLatency {
					maxLatency = d
				}
				recv[i] = append(recv[i], append(hdr, body...)...)
				if hdr[0] != byte(txn>>8) || hdr[1] != byte(txn) || hdr[6] != byte(i+1) {
					res.Add(Finding{Kind: "property", Check: "isolation-ids", Line: fmt.Sprintf("conn %d request %s", i, hx(frame)), Impl: hx(append(hdr, body...)), Expect: fmt.Sprintf("txn %04x unit %d", txn, i+1),
						Note: "a response carries another connection's transaction or unit id"})
				}
			}
			// a connection that ARRIVES while the other handler call is still blocked must be admitted
			// and served like the others
			lateAddr := ""
			if lc, err := net.Dial("tcp", addr); err == nil {
				lateAddr = lc.LocalAddr().String()
				t0 := time.Now()
				lf := mbapFrame(0x0777, 0, 0x63, 3, append(be16b(1), be16b(1)...))
				lc.Write(lf)
				lc.SetReadDeadline(time.Now().Add(500 * time.Millisecond))
				hdr := make([]byte, 7)
				if _, err := io.ReadFull(lc, hdr); err != nil || hdr[0] != 0x07 || hdr[1] != 0x77 || hdr[6] != 0x63 {
					res.Add(Finding{Kind: "property", Check: "head-of-line", Line: fmt.Sprintf("round %d K=%d: connection opened while a handler call (request %s) is blocked; request %s", round, K, hx(blocked), hx(lf)),
						Impl: fmt.Sprintf("header %s err=%v after %v", hx(hdr), err, time.Since(t0)), Expect: "served within 500 ms with its own ids",
						Note: "a blocked handler call on one connection delayed the admission / service of a new connection"})
				} else if d := time.Since(t0); d > maxLatency {
					maxLatency = d
				}
				lc.Close()
			}
			if maxLatency > 300*time.Millisecond {
				res.Add(Finding{Kind: "property", Check: "head-of-line", Line: fmt.Sprintf("round %d K=%d", round, K), Impl: fmt.Sprint(maxLatency), Expect: "< 300ms",
					Note: "a healthy connection was delayed while another connection stalled / its handler was blocked"})
			}
			close(h.block)
			time.Sleep(3 * time.Millisecond)
			h.mu.Lock()
			for _, c := range h.changed {
				res.Add(Finding{Kind: "property", Check: "handler-args-stable", Line: fmt.Sprintf("round %d K=%d: blocked request %s while the other connections exchanged requests", round, K, hx(blocked)), Impl: c,
					Expect: "the request a handler received stays what its connection sent", Note: "a handler invocation carried data of another connection's request"})
			}
			h.mu.Unlock()
			local := make([]string, K+2)
			for i, c := range conns {
				if c != nil {
					local[i] = c.LocalAddr().String()
				}
			}
			srv.Stop()
			for _, c := range conns {
				if c != nil {
					c.Close()
				}
			}
			// per connection: events attributed to it by ClientAddr vs single-session model run
			h.mu.Lock()
			for i := 0; i < K; i++ {
				if conns[i] == nil {
					continue
				}
				var calls []string
				if ev, ok := h.events[local[i]]; ok {
					calls = *ev
				}
				// rebuild the event string: calls in order, interleaved with responses in order
				impl := rebuildEvents(calls, recv[i])
				line := fmt.Sprintf("srv ok,ok,e:ErrServerDeviceBusy,ok,short timeout %s", hx(sent[i]))
				cases = append(cases, cexCase{line: line, impl: impl, label: "conn", key: fmt.Sprintf("r%d/c%d/%d", round%4, i%3, len(calls))})
				if h.roles[local[i]] != "" {
					res.Add(Finding{Kind: "property", Check: "isolation-role", Line: line, Impl: h.roles[local[i]], Expect: "empty role on plain tcp"})
				}
			}
			for a := range h.events {
				found := a == lateAddr
				for _, l := range local {
					if l == a {
						found = true
					}
				}
				if !found {
					res.Add(Finding{Kind: "property", Check: "isolation-addr", Line: fmt.Sprintf("round %d", round), Impl: a, Expect: "one of the connections' addresses", Note: "a handler call carried an address that is not the requesting connection's"})
				}
			}
			h.mu.Unlock()
		}
		if err := multiSessionCheck(tier, seed, res); err != nil {
			return err
		}
		slowReader(tier, res)
		collectRaceReports(res, "race")
		return compareProjection(cases, res)
	}
}

// tagHandler answers register reads with the unit id in every byte: a response identifies the
// connection (each uses its own unit id) it was computed for.
type tagHandler struct{}

func (tagHandler) HandleCoils(r *modbus.CoilsRequest) ([]bool, error) { return nil, modbus.ErrIllegalFunction }
func (tagHandler) HandleDiscreteInputs(r *modbus.DiscreteInputsRequest) ([]bool, error) {
	return nil, modbus.ErrIllegalFunction
}
func (tagHandler) HandleHoldingRegisters(r *modbus.HoldingRegistersRequest) ([]uint16, error) {
	out := make([]uint16, r.Quantity)
	for i := range out {
		out[i] = uint16(r.UnitId)<<8 | uint16(r.UnitId)
	}
	return out, nil
}
func (tagHandler) HandleInputRegisters(r *modbus.InputRegistersRequest) ([]uint16, error) {
	return nil, modbus.ErrIllegalFunction
}

// slowReader: connection A pipelines many requests and does not read, so that the server's writes
// to A come to a halt in the middle of a response; meanwhile connection B runs ordinary
// exchanges; then A reads everything. Every byte A receives must belong to a response computed
// for A (transaction ids in order, A's unit id, A's data) — "every response is written only to the
// connection that sent the request".
func slowReader(tier string, res *Result) {
	// one P: whatever the sessions share per processor (pools, caches) is then shared by all of them
	prev := runtime.GOMAXPROCS(1)
	defer runtime.GOMAXPROCS(prev)
	rounds := scale(tier, 2, 6)
	for round := 0; round < rounds; round++ {
		srv, err := modbus.NewServer(&modbus.ServerConfiguration{URL: "tcp://127.0.0.1:0", Timeout: 3 * time.Second, MaxClients: 4, Logger: quietLog}, tagHandler{})
		if err != nil {
			res.Note("slow reader: " + err.Error())
			return
		}
		if err := srv.Start(); err != nil {
			res.Note("slow reader: " + err.Error())
			return
		}
		addr := srv.VerifListenAddr().String()
		a, errA := net.Dial("tcp", addr)
		b, errB := net.Dial("tcp", addr)
		if errA != nil || errB != nil {
			srv.Stop()
			res.Note("slow reader: dial failed")
			return
		}
		if tc, ok := a.(*net.TCPConn); ok {
			tc.SetReadBuffer(4096) // a small window: the server's send path fills up soon
		}
		const nA = 30000
		go func() {
			for i := 0; i < nA; i++ {
				if _, err := a.Write(mbapFrame(uint16(i), 0, 0xa1, 3, append(be16b(0), be16b(125)...))); err != nil {
					return
				}
			}
		}()
		time.Sleep(300 * time.Millisecond) // let the responses pile up until the server's write blocks
		badB := ""
		for i := 0; i < 400 && badB == ""; i++ {
			b.Write(mbapFrame(uint16(0x8000+i), 0, 0xb2, 3, append(be16b(0), be16b(125)...)))
			b.SetReadDeadline(time.Now().Add(time.Second))
			fr := make([]byte, 259)
			if _, err := io.ReadFull(b, fr); err != nil {
				badB = "no response: " + err.Error()
				break
			}
			if fr[0] != byte((0x8000+i)>>8) || fr[1] != byte(0x8000+i) || fr[6] != 0xb2 || fr[9] != 0xb2 || fr[258] != 0xb2 {
				badB = "frame " + hx(fr[:12]) + "…" + hx(fr[250:])
			}
		}
		// now A reads: frames in order, all its own
		badA := ""
		got := 0
		a.SetReadDeadline(time.Now().Add(8 * time.Second))
		fr := make([]byte, 259)
		for got < nA && badA == "" {
			if _, err := io.ReadFull(a, fr); err != nil {
				break // the server's write deadline ended a blocked response: the stream may stop or skip — only content is judged
			}
			ok := fr[2] == 0 && fr[3] == 0 && fr[4] == 0 && fr[5] == 253 && fr[6] == 0xa1 && fr[7] == 3 && fr[8] == 250
			for k := 9; k < 259 && ok; k++ {
				ok = fr[k] == 0xa1
			}
			if !ok {
				badA = fmt.Sprintf("after %d good responses: %s…%s", got, hx(fr[:12]), hx(fr[246:]))
			}
			got++
		}
		line := fmt.Sprintf("connection A (unit a1) pipelines %d reads of 125 registers without reading; connection B (unit b2) runs 400 exchanges meanwhile; then A reads", nA)
		res.Eval("slow-reader", badA == "" && badB == "", line)
		if badA != "" || badB != "" {
			res.Add(Finding{Kind: "property", Check: "slow-reader", Line: line, Impl: "A: " + badA + " | B: " + badB,
				Expect: "every frame on A is a response computed for A (unit a1, data a1…), every frame on B one for B",
				Note:   "a response (or part of it) was written to a connection other than the one that sent the request"})
		}
		a.Close()
		b.Close()
		srv.Stop()
	}
}

// rebuildEvents: the real run gives, per connection, the ordered handler calls and the ordered
// response frames; a single-session run interleaves them call-then-response. Rebuild that order:
// each response is preceded by the call that produced it when the response is not an immediate
// exception without call — decided by the model, so here only the two ordered projections are kept.
func rebuildEvents(calls []string, recv []byte) string {
	var resp []string
	b := recv
	for len(b) >= 7 {
		if b[0] == 'X' && len(b) == 1 {
			break
		}
		n := int(b[4])<<8 | int(b[5])
		if len(b) < 6+n {
			break
		}
		resp = append(resp, "resp:"+hx(b[:6+n]))
		b = b[6+n:]
	}
	return "calls=" + strings.Join(calls, ";") + " resps=" + strings.Join(resp, ";")
}

// compareProjection compares calls and responses separately (their relative order across the two
// lists is fixed by the model: call_i precedes its response).
func compareProjection(cases []cexCase, res *Result) error {
	lines := make([]string, len(cases))
	for i, c := range cases {
		lines[i] = c.line
	}
	outs, err := runModel(lines)
	if err != nil {
		return err
	}
	for i, c := range cases {
		var calls, resps []string
		for _, e := range strings.Split(outs[i], ";") {
			if strings.HasPrefix(e, "call:") {
				calls = append(calls, e)
			} else if strings.HasPrefix(e, "resp:") {
				resps = append(resps, e)
			}
		}
		want := "calls=" + strings.Join(calls, ";") + " resps=" + strings.Join(resps, ";")
		res.Eval(c.key, true, shorten(c.line, 200)+" => "+shorten(c.impl, 200))
		if want != c.impl {
			res.Add(Finding{Kind: "property", Check: "isolation-projection", Line: c.line, Impl: c.impl, Expect: want,
				Note: "what one connection observes differs from a single-session run on its own byte stream"})
		}
	}
	return nil
}
