package main

import (
	"fmt"
	"io"
	"net"
	"strings"
	"sync"
	"time"

	"github.com/simonvetter/modbus"
)

// perSessionHandler keeps one scripted handler (and one event log) per ClientAddr, so that the
// projection of the real concurrent run on one connection can be compared with a single-session
// model run. A request for address 0xBEEF blocks until released (blocked-handler scenario).
type perSessionHandler struct {
	mu       sync.Mutex
	sessions map[string]*scriptedHandler
	events   map[string]*[]string
	block    chan struct{}
	roles    map[string]string
	units    map[string][]uint8
}

func (p *perSessionHandler) get(addr, role string) *scriptedHandler {
	p.mu.Lock()
	defer p.mu.Unlock()
	h, ok := p.sessions[addr]
	if !ok {
		ev := &[]string{}
		h = &scriptedHandler{script: []string{"ok", "ok", "e:ErrServerDeviceBusy", "ok", "short"}, events: ev, evmu: &sync.Mutex{}}
		p.sessions[addr] = h
		p.events[addr] = ev
	}
	if role != "" {
		p.roles[addr] = role
	}
	return h
}

func (p *perSessionHandler) maybeBlock(a uint16) {
	if a == 0xbeef {
		<-p.block
	}
}
func (p *perSessionHandler) HandleCoils(r *modbus.CoilsRequest) ([]bool, error) {
	p.maybeBlock(r.Addr)
	return p.get(r.ClientAddr, r.ClientRole).HandleCoils(r)
}
func (p *perSessionHandler) HandleDiscreteInputs(r *modbus.DiscreteInputsRequest) ([]bool, error) {
	p.maybeBlock(r.Addr)
	return p.get(r.ClientAddr, r.ClientRole).HandleDiscreteInputs(r)
}
func (p *perSessionHandler) HandleHoldingRegisters(r *modbus.HoldingRegistersRequest) ([]uint16, error) {
	p.maybeBlock(r.Addr)
	return p.get(r.ClientAddr, r.ClientRole).HandleHoldingRegisters(r)
}
func (p *perSessionHandler) HandleInputRegisters(r *modbus.InputRegistersRequest) ([]uint16, error) {
	p.maybeBlock(r.Addr)
	return p.get(r.ClientAddr, r.ClientRole).HandleInputRegisters(r)
}

func init() {
	checks["C11"] = func(tier string, seed uint64, res *Result) error {
		res.Rule = "K real TCP connections to one real server, all using the same transaction ids, distinct unit ids; requests interleaved by a seeded scheduler; one connection stalled mid-frame and one whose handler call (a read or a write, in turn) is blocked during the whole run; a connection arriving meanwhile; for every connection the response bytes and the handler calls attributed to it (by ClientAddr) are compared with a single-session run of the Lean server model on that connection's byte stream; every response must arrive on the connection that sent the request with its transaction and unit id; healthy connections must be answered while the others stall; distinct = (round, connection role, request class)"
		r := NewRng(seed).Fork(11000)
		var cases []cexCase
		rounds := scale(tier, 6, 60)
		for round := 0; round < rounds; round++ {
			K := 3 + r.Intn(6)
			h := &perSessionHandler{sessions: map[string]*scriptedHandler{}, events: map[string]*[]string{}, block: make(chan struct{}), roles: map[string]string{}}
			srv, err := modbus.NewServer(&modbus.ServerConfiguration{URL: "tcp://127.0.0.1:0", Timeout: 3 * time.Second, MaxClients: uint(K + 3), Logger: quietLog}, h)
			if err != nil {
				return err
			}
			if err := srv.Start(); err != nil {
				return err
			}
			addr := srv.VerifListenAddr().String()
			conns := make([]net.Conn, K+2)
			sent := make([][]byte, K+2)
			recv := make([][]byte, K+2)
			for i := range conns {
				c, err := net.Dial("tcp", addr)
				if err != nil {
					res.Add(Finding{Kind: "property", Check: "isolation-connect", Line: fmt.Sprintf("round %d conn %d", round, i), Impl: err.Error(), Expect: "connected"})
					continue
				}
				conns[i] = c
			}
			// conn K: stalls in the middle of a frame; conn K+1: its handler call blocks
			stall := mbapFrame(0x0101, 0, byte(K+1), 3, append(be16b(5), be16b(2)...))
			conns[K].Write(stall[:7])
			sent[K] = append(sent[K], stall[:7]...)
			// the blocked handler call is a read or a write, in turn (a lock taken around the
			// dispatch of writes only must show as well)
			var blocked []byte
			switch round % 4 {
			case 0:
				blocked = mbapFrame(0x0101, 0, byte(K+2), 3, append(be16b(0xbeef), be16b(1)...))
			case 1:
				blocked = mbapFrame(0x0101, 0, byte(K+2), 6, append(be16b(0xbeef), 0x12, 0x34))
			case 2:
				blocked = mbapFrame(0x0101, 0, byte(K+2), 16, append(append(be16b(0xbeef), be16b(1)...), 2, 0, 1))
			default:
				blocked = mbapFrame(0x0101, 0, byte(K+2), 5, append(be16b(0xbeef), 0xff, 0x00))
			}
			conns[K+1].Write(blocked)
			sent[K+1] = append(sent[K+1], blocked...)
			time.Sleep(2 * time.Millisecond)
			// interleaved requests on the healthy connections, identical transaction ids
			type job struct{ conn, seq int }
			var jobs []job
			per := 3 + r.Intn(5)
			for i := 0; i < K; i++ {
				for j := 0; j < per; j++ {
					jobs = append(jobs, job{i, j})
				}
			}
			for k := len(jobs) - 1; k > 0; k-- {
				j := r.Intn(k + 1)
				jobs[k], jobs[j] = jobs[j], jobs[k]
			}
			next := make([]int, K)
			var maxLatency time.Duration
			for _, jb := range jobs {
				i := jb.conn
				seq := next[i]
				next[i]++
				fc, pl, _ := genReqPDU(r)
				if len(pl) >= 2 && pl[0] == 0xbe && pl[1] == 0xef {
					pl[1] = 0xee
				}
				txn := uint16(0x0100 + seq) // the same ids on every connection
				frame := mbapFrame(txn, 0, byte(i+1), fc, pl)
				t0 := time.Now()
				conns[i].Write(frame)
				sent[i] = append(sent[i], frame...)
				conns[i].SetReadDeadline(time.Now().Add(500 * time.Millisecond))
				hdr := make([]byte, 7)
				if _, err := io.ReadFull(conns[i], hdr); err != nil {
					// the server closed this connection (malformed request): it stays closed
					recv[i] = append(recv[i], []byte("X")...)
					continue
				}
				n := int(hdr[4])<<8 | int(hdr[5])
				body := make([]byte, n-1)
				io.ReadFull(conns[i], body)
				if d := time.Since(t0); d > maxLatency {
					maxLatency = d
				}
				recv[i] = append(recv[i], append(hdr, body...)...)
				if hdr[0] != byte(txn>>8) || hdr[1] != byte(txn) || hdr[6] != byte(i+1) {
					res.Add(Finding{Kind: "property", Check: "isolation-ids", Line: fmt.Sprintf("conn %d request %s", i, hx(frame)), Impl: hx(append(hdr, body...)), Expect: fmt.Sprintf("txn %04x unit %d", txn, i+1),
						Note: "a response carries another connection's transaction or unit id"})
				}
			}
			// a connection that ARRIVES while the other handler call is still blocked must be admitted
			// and served like the others
			lateAddr := ""
			if lc, err := net.Dial("tcp", addr); err == nil {
				lateAddr = lc.LocalAddr().String()
				t0 := time.Now()
				lf := mbapFrame(0x0777, 0, 0x63, 3, append(be16b(1), be16b(1)...))
				lc.Write(lf)
				lc.SetReadDeadline(time.Now().Add(500 * time.Millisecond))
				hdr := make([]byte, 7)
				if _, err := io.ReadFull(lc, hdr); err != nil || hdr[0] != 0x07 || hdr[1] != 0x77 || hdr[6] != 0x63 {
					res.Add(Finding{Kind: "property", Check: "head-of-line", Line: fmt.Sprintf("round %d K=%d: connection opened while a handler call (request %s) is blocked; request %s", round, K, hx(blocked), hx(lf)),
						Impl: fmt.Sprintf("header %s err=%v after %v", hx(hdr), err, time.Since(t0)), Expect: "served within 500 ms with its own ids",
						Note: "a blocked handler call on one connection delayed the admission / service of a new connection"})
				} else if d := time.Since(t0); d > maxLatency {
					maxLatency = d
				}
				lc.Close()
			}
			if maxLatency > 300*time.Millisecond {
				res.Add(Finding{Kind: "property", Check: "head-of-line", Line: fmt.Sprintf("round %d K=%d", round, K), Impl: fmt.Sprint(maxLatency), Expect: "< 300ms",
					Note: "a healthy connection was delayed while another connection stalled / its handler was blocked"})
			}
			close(h.block)
			time.Sleep(3 * time.Millisecond)
			local := make([]string, K+2)
			for i, c := range conns {
				if c != nil {
					local[i] = c.LocalAddr().String()
				}
			}
			srv.Stop()
			for _, c := range conns {
				if c != nil {
					c.Close()
				}
			}
			// per connection: events attributed to it by ClientAddr vs single-session model run
			h.mu.Lock()
			for i := 0; i < K; i++ {
				if conns[i] == nil {
					continue
				}
				var calls []string
				if ev, ok := h.events[local[i]]; ok {
					calls = *ev
				}
				// rebuild the event string: calls in order, interleaved with responses in order
				impl := rebuildEvents(calls, recv[i])
				line := fmt.Sprintf("srv ok,ok,e:ErrServerDeviceBusy,ok,short timeout %s", hx(sent[i]))
				cases = append(cases, cexCase{line: line, impl: impl, label: "conn", key: fmt.Sprintf("r%d/c%d/%d", round%4, i%3, len(calls))})
				if h.roles[local[i]] != "" {
					res.Add(Finding{Kind: "property", Check: "isolation-role", Line: line, Impl: h.roles[local[i]], Expect: "empty role on plain tcp"})
				}
			}
			for a := range h.events {
				found := a == lateAddr
				for _, l := range local {
					if l == a {
						found = true
					}
				}
				if !found {
					res.Add(Finding{Kind: "property", Check: "isolation-addr", Line: fmt.Sprintf("round %d", round), Impl: a, Expect: "one of the connections' addresses", Note: "a handler call carried an address that is not the requesting connection's"})
				}
			}
			h.mu.Unlock()
		}
		if err := multiSessionCheck(tier, seed, res); err != nil {
			return err
		}
		collectRaceReports(res, "race")
		return compareProjection(cases, res)
	}
}

// rebuildEvents: the real run gives, per connection, the ordered handler calls and the ordered
// response frames; a single-session run interleaves them call-then-response. Rebuild that order:
// each response is preceded by the call that produced it when the response is not an immediate
// exception without call — decided by the model, so here only the two ordered projections are kept.
func rebuildEvents(calls []string, recv []byte) string {
	var resp []string
	b := recv
	for len(b) >= 7 {
		if b[0] == 'X' && len(b) == 1 {
			break
		}
		n := int(b[4])<<8 | int(b[5])
		if len(b) < 6+n {
			break
		}
		resp = append(resp, "resp:"+hx(b[:6+n]))
		b = b[6+n:]
	}
	return "calls=" + strings.Join(calls, ";") + " resps=" + strings.Join(resp, ";")
}

// compareProjection compares calls and responses separately (their relative order across the two
// lists is fixed by the model: call_i precedes its response).
func compareProjection(cases []cexCase, res *Result) error {
	lines := make([]string, len(cases))
	for i, c := range cases {
		lines[i] = c.line
	}
	outs, err := runModel(lines)
	if err != nil {
		return err
	}
	for i, c := range cases {
		var calls, resps []string
		for _, e := range strings.Split(outs[i], ";") {
			if strings.HasPrefix(e, "call:") {
				calls = append(calls, e)
			} else if strings.HasPrefix(e, "resp:") {
				resps = append(resps, e)
			}
		}
		want := "calls=" + strings.Join(calls, ";") + " resps=" + strings.Join(resps, ";")
		res.Eval(c.key, true, shorten(c.line, 200)+" => "+shorten(c.impl, 200))
		if want != c.impl {
			res.Add(Finding{Kind: "property", Check: "isolation-projection", Line: c.line, Impl: c.impl, Expect: want,
				Note: "what one connection observes differs from a single-session run on its own byte stream"})
		}
	}
	return nil
}
