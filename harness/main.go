package main

import (
	"flag"
	"fmt"
	"os"
	"runtime"
	"strconv"
)

type checkFn func(tier string, seed uint64, res *Result) error

var checks = map[string]checkFn{}

func main() {
	prop := flag.String("prop", "", "property id")
	tier := flag.String("tier", "quick", "quick|thorough")
	out := flag.String("out", "", "result json path")
	replay := flag.String("replay", "", "replay file")
	flag.StringVar(&modelPath, "model", modelPath, "path to mbmodel")
	flag.Parse()
	seed := uint64(1)
	if s := os.Getenv("VERIF_SEED"); s != "" {
		if v, err := strconv.ParseUint(s, 10, 64); err == nil {
			seed = v
		}
	}
	runtime.GOMAXPROCS(runtime.NumCPU())
	if *replay != "" {
		os.Exit(doReplay(*prop, *replay))
	}
	fn, ok := checks[*prop]
	if !ok {
		fmt.Fprintf(os.Stderr, "no harness check for %s\n", *prop)
		os.Exit(3)
	}
	res := NewResult(*prop, *tier, seed)
	if err := fn(*tier, seed, res); err != nil {
		fmt.Fprintf(os.Stderr, "harness error: %v\n", err)
		res.Note("harness error: " + err.Error())
		res.Write(*out)
		os.Exit(4)
	}
	if err := res.Write(*out); err != nil {
		fmt.Fprintln(os.Stderr, err)
		os.Exit(4)
	}
	if len(res.Findings) > 0 {
		os.Exit(1)
	}
}

func scale(tier string, quick, thorough int) int {
	if tier == "thorough" {
		return thorough
	}
	return quick
}
