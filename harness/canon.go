package main

import (
	"encoding/hex"
	"errors"
	"fmt"
	"io"
	"os"
	"strings"

	"github.com/simonvetter/modbus"
)

var errNames = map[modbus.Error]string{
	modbus.ErrConfigurationError:      "ErrConfigurationError",
	modbus.ErrRequestTimedOut:         "ErrRequestTimedOut",
	modbus.ErrIllegalFunction:         "ErrIllegalFunction",
	modbus.ErrIllegalDataAddress:      "ErrIllegalDataAddress",
	modbus.ErrIllegalDataValue:        "ErrIllegalDataValue",
	modbus.ErrServerDeviceFailure:     "ErrServerDeviceFailure",
	modbus.ErrAcknowledge:             "ErrAcknowledge",
	modbus.ErrServerDeviceBusy:        "ErrServerDeviceBusy",
	modbus.ErrMemoryParityError:       "ErrMemoryParityError",
	modbus.ErrGWPathUnavailable:       "ErrGWPathUnavailable",
	modbus.ErrGWTargetFailedToRespond: "ErrGWTargetFailedToRespond",
	modbus.ErrBadCRC:                  "ErrBadCRC",
	modbus.ErrShortFrame:              "ErrShortFrame",
	modbus.ErrProtocolError:           "ErrProtocolError",
	modbus.ErrBadUnitId:               "ErrBadUnitId",
	modbus.ErrBadTransactionId:        "ErrBadTransactionId",
	modbus.ErrUnknownProtocolId:       "ErrUnknownProtocolId",
	modbus.ErrUnexpectedParameters:    "ErrUnexpectedParameters",
}

var errByName = func() map[string]modbus.Error {
	m := map[string]modbus.Error{}
	for k, v := range errNames {
		m[v] = k
	}
	return m
}()

// canonErr maps a Go error to the model's error enum name.
func canonErr(err error) string {
	if err == nil {
		return "nil"
	}
	if me, ok := err.(modbus.Error); ok {
		if n, ok := errNames[me]; ok {
			return n
		}
		return "modbus-other:" + string(me)
	}
	var code int
	if n, _ := fmt.Sscanf(err.Error(), "unknown exception code (%d)", &code); n == 1 {
		return fmt.Sprintf("unknown-exception-%d", code)
	}
	if os.IsTimeout(err) {
		return "io-timeout"
	}
	if err == io.EOF {
		return "io-eof"
	}
	if errors.Is(err, io.ErrUnexpectedEOF) {
		return "io-unexpected-eof"
	}
	return "io-other"
}

func hx(b []byte) string {
	if len(b) == 0 {
		return "-"
	}
	return hex.EncodeToString(b)
}

func unhx(s string) []byte {
	if s == "-" {
		return nil
	}
	b, err := hex.DecodeString(s)
	if err != nil {
		panic("bad hex: " + s)
	}
	return b
}

func bitsStr(l []bool) string {
	if len(l) == 0 {
		return "-"
	}
	var sb strings.Builder
	sb.Grow(len(l))
	for _, b := range l {
		if b {
			sb.WriteByte('1')
		} else {
			sb.WriteByte('0')
		}
	}
	return sb.String()
}

func hexU16s(l []uint16) string {
	if len(l) == 0 {
		return "-"
	}
	var sb strings.Builder
	for _, v := range l {
		fmt.Fprintf(&sb, "%04x", v)
	}
	return sb.String()
}

func hexU32s(l []uint32) string {
	if len(l) == 0 {
		return "-"
	}
	var sb strings.Builder
	for _, v := range l {
		fmt.Fprintf(&sb, "%08x", v)
	}
	return sb.String()
}

func hexU64s(l []uint64) string {
	if len(l) == 0 {
		return "-"
	}
	var sb strings.Builder
	for _, v := range l {
		fmt.Fprintf(&sb, "%016x", v)
	}
	return sb.String()
}

func flat(chunks [][]byte) []byte {
	var out []byte
	for _, c := range chunks {
		out = append(out, c...)
	}
	return out
}
