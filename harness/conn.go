package main

import (
	"errors"
	"fmt"
	"io"
	"net"
	"os"
	"sync"
	"time"
)

// ScriptConn is a net.Conn whose incoming byte stream, segmentation and ending are
// scripted, and which records everything the code under test does to it.
type ScriptConn struct {
	mu        sync.Mutex
	chunks    [][]byte // each element: what one Read can return at most
	ending    string   // "timeout" | "eof" | "reset" once chunks are used up
	Written   [][]byte
	Trace     []string
	closed    bool
	Deadlines int
	Consumed  int
	WriteErr  error
	// WriteCut > 0: the next Write hands its bytes to the peer (recorded, OnWrite runs) but reports
	// that only WriteCut of them went out before the write deadline (a peer that stopped draining
	// mid-frame, yet saw enough of the header to answer later); reset after one Write
	WriteCut int
	BlockFor  time.Duration // > 0: a Read with no data waits up to this long before failing
	EndReads  int           // consecutive reads answered with the ending error
	Spun      bool          // the code under test kept reading after the stream had ended (busy loop)
	// OnWrite, if set, is called (without the lock) after each Write with the bytes written;
	// it may Feed more input (a responding peer).
	OnWrite func(b []byte)
}

type fakeAddr string

func (a fakeAddr) Network() string { return "script" }
func (a fakeAddr) String() string  { return string(a) }

var errReset = errors.New("read: connection reset by peer")

func NewScriptConn() *ScriptConn { return &ScriptConn{ending: "timeout"} }

// Arm installs the incoming stream.
func (c *ScriptConn) Arm(chunks [][]byte, ending string) {
	c.mu.Lock()
	defer c.mu.Unlock()
	c.EndReads = 0
	c.chunks = nil
	for _, ch := range chunks {
		c.chunks = append(c.chunks, append([]byte(nil), ch...))
	}
	c.ending = ending
}

// Feed appends chunks to the incoming stream.
func (c *ScriptConn) Feed(chunks ...[]byte) {
	c.mu.Lock()
	defer c.mu.Unlock()
	for _, ch := range chunks {
		c.chunks = append(c.chunks, append([]byte(nil), ch...))
	}
}

// Pending returns the unread bytes.
func (c *ScriptConn) Pending() []byte {
	c.mu.Lock()
	defer c.mu.Unlock()
	var out []byte
	for _, ch := range c.chunks {
		out = append(out, ch...)
	}
	return out
}

func (c *ScriptConn) TakeWritten() [][]byte {
	c.mu.Lock()
	defer c.mu.Unlock()
	w := c.Written
	c.Written = nil
	return w
}

func (c *ScriptConn) TakeTrace() []string {
	c.mu.Lock()
	defer c.mu.Unlock()
	t := c.Trace
	c.Trace = nil
	return t
}

func (c *ScriptConn) Read(b []byte) (int, error) {
	c.mu.Lock()
	defer c.mu.Unlock()
	if c.closed {
		c.Trace = append(c.Trace, fmt.Sprintf("read(%d)=closed", len(b)))
		return 0, net.ErrClosed
	}
	if len(b) == 0 {
		return 0, nil
	}
	if len(c.chunks) == 0 && c.BlockFor > 0 {
		// blocking mode: wait (bounded) for the peer to feed data, like a socket with a deadline
		deadline := time.Now().Add(c.BlockFor)
		for len(c.chunks) == 0 && !c.closed && time.Now().Before(deadline) {
			c.mu.Unlock()
			time.Sleep(20 * time.Microsecond)
			c.mu.Lock()
		}
		if c.closed {
			return 0, net.ErrClosed
		}
	}
	if len(c.chunks) == 0 {
		c.EndReads++
		if c.EndReads > 300 {
			// watchdog: the stream has ended 300 times over and the code still reads: break the loop
			c.Spun = true
			c.closed = true
			return 0, net.ErrClosed
		}
		c.Trace = append(c.Trace, fmt.Sprintf("re:%d", len(b)))
		switch c.ending {
		case "eof":
			return 0, io.EOF
		case "reset":
			return 0, errReset
		default:
			return 0, os.ErrDeadlineExceeded
		}
	}
	c.EndReads = 0
	ch := c.chunks[0]
	n := copy(b, ch)
	if n == len(ch) {
		c.chunks = c.chunks[1:]
	} else {
		c.chunks[0] = ch[n:]
	}
	c.Consumed += n
	c.Trace = append(c.Trace, fmt.Sprintf("r:%d:%d", len(b), n))
	return n, nil
}

func (c *ScriptConn) Write(b []byte) (int, error) {
	c.mu.Lock()
	if c.closed {
		c.mu.Unlock()
		return 0, net.ErrClosed
	}
	if c.WriteErr != nil {
		err := c.WriteErr
		c.Trace = append(c.Trace, fmt.Sprintf("write(%d)=err", len(b)))
		c.mu.Unlock()
		return 0, err
	}
	cp := append([]byte(nil), b...)
	c.Written = append(c.Written, cp)
	c.Trace = append(c.Trace, fmt.Sprintf("w:%d", len(b)))
	f := c.OnWrite
	cut := c.WriteCut
	c.WriteCut = 0
	c.mu.Unlock()
	if f != nil {
		f(cp)
	}
	if cut > 0 && cut < len(b) {
		return cut, os.ErrDeadlineExceeded
	}
	return len(b), nil
}

func (c *ScriptConn) Close() error {
	c.mu.Lock()
	defer c.mu.Unlock()
	c.Trace = append(c.Trace, "close")
	c.closed = true
	return nil
}

func (c *ScriptConn) IsClosed() bool {
	c.mu.Lock()
	defer c.mu.Unlock()
	return c.closed
}

func (c *ScriptConn) LocalAddr() net.Addr  { return fakeAddr("local") }
func (c *ScriptConn) RemoteAddr() net.Addr { return fakeAddr("peer") }

func (c *ScriptConn) SetDeadline(t time.Time) error {
	c.mu.Lock()
	defer c.mu.Unlock()
	c.Deadlines++
	c.Trace = append(c.Trace, fmt.Sprintf("sd:%d", int64(time.Until(t))))
	return nil
}
func (c *ScriptConn) SetReadDeadline(t time.Time) error  { return c.SetDeadline(t) }
func (c *ScriptConn) SetWriteDeadline(t time.Time) error { return c.SetDeadline(t) }

// chunking helpers ---------------------------------------------------------

// splitAt splits b at the given sorted offsets.
func splitAt(b []byte, offs ...int) [][]byte {
	var out [][]byte
	prev := 0
	for _, o := range offs {
		if o < prev {
			o = prev
		}
		if o > len(b) {
			o = len(b)
		}
		out = append(out, b[prev:o])
		prev = o
	}
	out = append(out, b[prev:])
	return out
}

func bytewise(b []byte) [][]byte {
	out := make([][]byte, 0, len(b))
	for i := range b {
		out = append(out, b[i:i+1])
	}
	return out
}

func randomChunks(r *Rng, b []byte) [][]byte {
	switch r.Intn(5) {
	case 0:
		return [][]byte{b}
	case 1:
		return bytewise(b)
	}
	var out [][]byte
	for len(b) > 0 {
		n := 1 + r.Intn(len(b))
		if r.Chance(1, 8) {
			out = append(out, []byte{}) // zero-length read
		}
		out = append(out, b[:n])
		b = b[n:]
	}
	return out
}
