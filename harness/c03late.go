package main

import (
	"fmt"
	"net"
	"sync/atomic"
	"time"

	"github.com/simonvetter/modbus"
)

// slowHandler answers holding-register requests after a delay; it counts its invocations.
type slowHandler struct {
	delay time.Duration
	calls int32
}

func (h *slowHandler) HandleCoils(r *modbus.CoilsRequest) ([]bool, error) {
	return nil, modbus.ErrIllegalFunction
}
func (h *slowHandler) HandleDiscreteInputs(r *modbus.DiscreteInputsRequest) ([]bool, error) {
	return nil, modbus.ErrIllegalFunction
}
func (h *slowHandler) HandleHoldingRegisters(r *modbus.HoldingRegistersRequest) ([]uint16, error) {
	atomic.AddInt32(&h.calls, 1)
	time.Sleep(h.delay)
	out := make([]uint16, r.Quantity)
	for i := range out {
		out[i] = r.Addr + uint16(i)
	}
	return out, nil
}
func (h *slowHandler) HandleInputRegisters(r *modbus.InputRegistersRequest) ([]uint16, error) {
	return nil, modbus.ErrIllegalFunction
}

// lateRequests: a valid request may arrive at ANY moment of the idle window and its handler may
// take time; as long as the request itself was completely received before the idle deadline, C03
// promises exactly one handler call FOLLOWED BY exactly one response. Arrival offsets are spread
// over the window, handler durations chosen so that handler completion falls before and after the
// instant at which the idle deadline (armed when the server started waiting) expires.
func lateRequests(tier string, seed uint64, res *Result) {
	r := NewRng(seed).Fork(3300)
	timeout := 300 * time.Millisecond
	rounds := scale(tier, 5, 24)
	for round := 0; round < rounds; round++ {
		// arrival at 15 % .. 80 % of the window; completion at 40 % .. 160 % of it
		arrive := time.Duration(15+r.Intn(66)) * timeout / 100
		finish := time.Duration(40+r.Intn(121)) * timeout / 100
		if round == 0 {
			arrive, finish = 73*timeout/100, 113*timeout/100 // the minimal witness, always run
		}
		if finish < arrive+5*time.Millisecond {
			finish = arrive + 5*time.Millisecond
		}
		h := &slowHandler{delay: finish - arrive}
		srv, err := modbus.NewServer(&modbus.ServerConfiguration{URL: "tcp://127.0.0.1:0", Timeout: timeout, MaxClients: 2, Logger: quietLog}, h)
		if err != nil {
			res.Note(err.Error())
			return
		}
		if err := srv.Start(); err != nil {
			res.Note(err.Error())
			return
		}
		c, err := net.Dial("tcp", srv.VerifListenAddr().String())
		if err != nil {
			srv.Stop()
			res.Note(err.Error())
			return
		}
		t0 := time.Now()
		time.Sleep(arrive)
		req := mbapFrame(uint16(0x4000+round), 0, 9, 3, append(be16b(0x0100+round), be16b(2)...))
		c.Write(req)
		want := mbapFrame(uint16(0x4000+round), 0, 9, 3, append([]byte{4}, append(be16b(0x0100+round), be16b(0x0101+round)...)...))
		got := make([]byte, 0, 64)
		buf := make([]byte, 64)
		c.SetReadDeadline(t0.Add(finish + 250*time.Millisecond))
		for len(got) < len(want) {
			n, err := c.Read(buf)
			got = append(got, buf[:n]...)
			if err != nil {
				break
			}
		}
		calls := atomic.LoadInt32(&h.calls)
		line := fmt.Sprintf("idle timeout %v; request `% x` written %v after the connection was accepted; handler returns %v later (%d%% of the window after the wait began)",
			timeout, req, arrive, finish-arrive, int(finish*100/timeout))
		cls := "completes-inside-window"
		if finish > timeout {
			cls = "completes-after-idle-deadline"
		}
		ok := string(got) == string(want) && calls == 1
		res.Eval("late-request/"+cls, ok, line)
		if !ok {
			res.Add(Finding{Kind: "property", Check: "late-request", Line: line,
				Impl:   fmt.Sprintf("handler calls=%d response=`% x`", calls, got),
				Expect: fmt.Sprintf("handler calls=1 response=`% x`", want),
				Note:   "a valid request received within the idle window was handled but not answered (exactly one invocation followed by exactly one response)"})
		}
		c.Close()
		srv.Stop()
	}
}
