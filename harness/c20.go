package main

import (
	"bytes"
	"fmt"
	"math"
	"os"
	"os/exec"
	"regexp"
	"strconv"
	"strings"
	"sync"
	"time"

	"github.com/simonvetter/modbus"
)

var cliBin = func() string {
	if d := os.Getenv("VERIF_WORK_DIR"); d != "" {
		return d + "/modbus-cli"
	}
	return "/verif/.work/modbus-cli"
}()

func buildCLI() error {
	cmd := exec.Command("go", "build", "-o", cliBin, "./cmd/modbus-cli.go")
	cmd.Dir = "/repo"
	cmd.Env = append(os.Environ(), "GOFLAGS=-mod=mod", "GOPROXY=off", "GOSUMDB=off", "GOTOOLCHAIN=local")
	if out, err := cmd.CombinedOutput(); err != nil {
		return fmt.Errorf("building the CLI from /repo failed: %v: %s", err, out)
	}
	return nil
}

func numeral(r *Rng, v uint64) string {
	switch r.Intn(7) {
	case 0, 1:
		return fmt.Sprintf("0x%x", v)
	case 2:
		return fmt.Sprintf("0X%X", v)
	case 3:
		if v > 0 {
			return fmt.Sprintf("0%o", v) // leading zero = octal
		}
		return "0"
	case 4:
		return fmt.Sprintf("0b%b", v)
	default:
		return fmt.Sprint(v)
	}
}

var readTypes = []string{"uint16", "int16", "uint32", "int32", "float32", "uint64", "int64", "float64", "bytes"}
var floatLits = []string{"0", "-0", "1.5", "-3.2", "3.4028235e38", "1e-45", "NaN", "inf", "-inf", "0.1", "123456.789", "1e300", "-2.5e-310"}

// genCLIArg returns (argument for the real CLI, argument for the model, class)
func genCLIArg(r *Rng) (string, string, string) {
	addr := uint64(pickInt(r, []int{0, 1, 0x10, 0x10, 0x11, 0x20, 0x100, 300, 0xff00, 0xfff0, 0xfffe, 0xffff}))
	if r.Chance(1, 3) {
		addr = uint64(r.Intn(40))
	}
	a := numeral(r, addr)
	plus := ""
	if r.Chance(1, 2) {
		plus = "+" + numeral(r, uint64(pickInt(r, []int{0, 1, 2, 5, 7, 10, 30, 61, 62, 124, 125, 199, 1999, 2000, 65535,
			// counts whose register total (x2, x4) wraps in 16 bits to something small
			16383, 16384, 16390, 32767, 32768, 32770, 32780, 49152, 49160, 65534})))
	}
	switch r.Intn(16) {
	case 0, 1:
		n := []string{"rc", "readCoils", "readCoil"}[r.Intn(3)]
		s := n + ":" + a + plus
		return s, s, "rc"
	case 2:
		n := []string{"rdi", "readDiscreteInputs", "readDiscreteInput"}[r.Intn(3)]
		s := n + ":" + a + plus
		return s, s, "rdi"
	case 3, 4, 5:
		n := []string{"rh", "readHoldingRegisters", "ri", "readInputRegisters", "readHoldingRegister", "readInputRegister"}[r.Intn(6)]
		t := readTypes[r.Intn(len(readTypes))]
		s := n + ":" + t + ":" + a + plus
		return s, s, "r/" + t
	case 6:
		n := []string{"wc", "writeCoil"}[r.Intn(2)]
		s := n + ":" + a + ":" + []string{"true", "false"}[r.Intn(2)]
		return s, s, "wc"
	case 7, 8, 9:
		n := []string{"wr", "writeRegister"}[r.Intn(2)]
		t := []string{"uint16", "int16", "uint32", "int32", "uint64", "int64", "bytes", "string"}[r.Intn(8)]
		var v string
		switch t {
		case "uint16":
			v = numeral(r, uint64(pickInt(r, []int{0, 1, 0x605, 0x7fff, 0x8000, 0xffff})))
		case "int16":
			v = fmt.Sprint(pickInt(r, []int{0, -1, -10, 32767, -32768, 1234}))
		case "uint32":
			v = numeral(r, uint64(genU32(r)))
		case "int32":
			v = fmt.Sprint(int32(genU32(r)))
		case "uint64":
			v = numeral(r, genU64(r))
		case "int64":
			v = fmt.Sprint(int64(genU64(r)))
		case "bytes":
			v = hx(r.Bytes(1 + r.Intn(9)))
			if r.Bool() {
				v = strings.ToUpper(v)
			}
		case "string":
			v = []string{"hello", "A", "modbus!", "x y"}[r.Intn(3)]
		}
		s := n + ":" + t + ":" + a + ":" + v
		return s, s, "w/" + t
	case 10: // floats: the model receives the bit pattern Go's parser produced
		lit := floatLits[r.Intn(len(floatLits))]
		if r.Bool() {
			f, err := strconv.ParseFloat(lit, 32)
			real := "wr:float32:" + a + ":" + lit
			if err != nil {
				return real, "wr:float32:" + a + ":zz", "w/float32-bad"
			}
			return real, fmt.Sprintf("wr:float32:%s:0x%08x", a, math.Float32bits(float32(f))), "w/float32"
		}
		f, err := strconv.ParseFloat(lit, 64)
		real := "wr:float64:" + a + ":" + lit
		if err != nil {
			return real, "wr:float64:" + a + ":zz", "w/float64-bad"
		}
		return real, fmt.Sprintf("wr:float64:%s:0x%016x", a, math.Float64bits(f)), "w/float64"
	case 11:
		s := []string{"sid", "suid", "setUnitId"}[r.Intn(3)] + ":" + numeral(r, uint64(pickInt(r, []int{0, 1, 2, 10, 255, 256, 300})))
		return s, s, "sid"
	default: // malformed variants
		bad := []string{"rc", "rc:", "rc:1:2", "rh:uint8:1", "rh:uint16", "rh::1", "wr:uint16:1", "wr:uint16:1:2:3", "wc:1:yes", "wc:1", "rh:uint16:1+2+3",
			"rc:0x", "rc:65536", "rc:-1", "rc:1+65536", "sid:256", "sid:", "wr:bytes:5:abc", "wr:bytes:5:zz", "wr:int16:1:40000", "wr:uint16:1:-1", "wr:int32:1:2147483648",
			"xx:1", ":", "", "rh:bytes", "wr:string:1:a:b", "rc:08", "rc:1_0", "rc:0_1", "rc:+5", "ri:float32:", "wr:uint64:0:18446744073709551616", "date:1", "repeat:2", "scan:zz", "ping:0"}
		s := bad[r.Intn(len(bad))]
		return s, s, "malformed"
	}
}

var logLine = regexp.MustCompile(`^(modbus-client|tcp-transport|rtu-transport|modbus-server)\(`)
var floatTok = regexp.MustCompile(`f(32|64):0x([0-9a-f]+)`)

func substFloats(s string) string {
	return floatTok.ReplaceAllStringFunc(s, func(t string) string {
		m := floatTok.FindStringSubmatch(t)
		v, _ := strconv.ParseUint(m[2], 16, 64)
		if m[1] == "32" {
			return fmt.Sprintf("%f", math.Float32frombits(uint32(v)))
		}
		return fmt.Sprintf("%f", math.Float64frombits(v))
	})
}

// numerals at the edges of Go's base-0 integer syntax (prefixes, underscores, signs, leading
// zeros, range): run first, as value, address, count and unit id
var c20Numerals = []string{"+5", "-0", "0x", "0X1f", "1_000", "0b101", "0o17", "017", "00", "-0x10", "\u0663", "1e3", "0x1p4", "0_7", "0x_1F",
	"1__0", "_1", "1_", "08", "0B_1", "65536", "0xFFFF", "0200000", "-32768", "-0x8000", "0_x1", "0X_f_F", "32767", "32768", "-32769", "0b", "0o", "-", "+", "0x10000", "-1"}

func c20Corpus() [][]string {
	out := [][]string{
		{"rh:uint64:0x100+16384"}, {"ri:int64:8+32770"}, {"rh:uint64:0+49160"}, {"rh:uint32:0+32770"}, {"ri:float32:1+32800"}, {"rh:float64:2+16390"},
		{"rh:uint64:0+30", "rh:uint64:0+31"}, {"rc:0+65535"}, {"rh:uint16:0+65535"},
	}
	for _, n := range c20Numerals {
		out = append(out, []string{"wr:uint16:0x10:" + n, "rh:uint16:0x10"}, []string{"wr:int16:0x10:" + n, "rh:int16:0x10"},
			[]string{"rh:uint16:" + n}, []string{"rc:1+" + n}, []string{"sid:" + n, "ri:uint16:3"}, []string{"wr:int32:7:" + n, "wr:uint64:9:" + n, "rh:uint16:7+5"})
	}
	return out
}

func init() {
	checks["C20"] = func(tier string, seed uint64, res *Result) error {
		res.Rule = "the modbus-cli binary built from /repo, run as a subprocess against a real server with a 4 x 65536-cell memory handler (fresh per invocation): invocations of 1-4 commands from the documented grammar (all aliases, all types, decimal / hex / octal / binary numerals, +counts up to the wrap, negative and boundary values, float literals incl. NaN/inf/-0, bytes, string, sid) with every endianness / word-order option spelling and unit ids, plus malformed variants (arity, unknown type, bad / out-of-range numerals, empty parts); exit status, the handler invocations received by the server and the printed data lines are compared with the Lean pipeline (Cli.invoke -> Cli.execute -> closed-loop system model -> Cli.printedLines); distinct = (command classes of the invocation, option spelling, outcome)"
		if err := buildCLI(); err != nil {
			return err
		}
		defer os.Remove(cliBin)
		corpus := c20Corpus()
		n := scale(tier, 260, 5000) + len(corpus)
		type item struct {
			modelLine, impl, key, human string
		}
		items := make([]item, n)
		var wg sync.WaitGroup
		sem := make(chan struct{}, 16)
		for i := 0; i < n; i++ {
			wg.Add(1)
			sem <- struct{}{}
			go func(i int) {
				defer wg.Done()
				defer func() { <-sem }()
				r := NewRng(seed).Fork(uint64(20000 + i))
				e := []string{"big", "little"}[r.Intn(2)]
				w := []string{"highfirst", "hf", "lowfirst", "lf"}[r.Intn(4)]
				u := pickInt(r, []int{1, 1, 1, 0, 7, 255})
				if r.Chance(1, 40) {
					u = 300
				}
				if r.Chance(1, 60) {
					e = "middle"
				}
				var real, model, classes []string
				if i < len(corpus) {
					real, model = corpus[i], corpus[i]
					for range real {
						classes = append(classes, "corpus")
					}
					e, w, u = []string{"big", "little"}[i%2], []string{"hf", "lf"}[(i/2)%2], 1
				}
				for k := 0; i >= len(corpus) && k < 1+r.Intn(4); k++ {
					a, m, c := genCLIArg(r)
					if strings.ContainsAny(a, " ") || a == "" {
						continue // arguments with spaces / empty strings cannot be carried by the line protocol
					}
					real, model, classes = append(real, a), append(model, m), append(classes, c)
				}
				h := &memHandler{}
				srv, err := modbus.NewServer(&modbus.ServerConfiguration{URL: "tcp://127.0.0.1:0", Timeout: 2 * time.Second, Logger: quietLog}, h)
				if err != nil || srv.Start() != nil {
					return
				}
				args := append([]string{"--target", "tcp://" + srv.VerifListenAddr().String(), "--timeout", "1s", "--endianness", e, "--word-order", w, "--unit-id", fmt.Sprint(u)}, real...)
				cmd := exec.Command(cliBin, args...)
				var out bytes.Buffer
				cmd.Stdout, cmd.Stderr = &out, &out
				err = cmd.Run()
				code := 0
				if ee, ok := err.(*exec.ExitError); ok {
					code = ee.ExitCode()
				} else if err != nil {
					code = -1
				}
				srv.Stop()
				h.mu.Lock()
				calls := strings.Join(h.calls, ";")
				h.mu.Unlock()
				var data []string
				for _, l := range strings.Split(strings.TrimRight(out.String(), "\n"), "\n") {
					if l == "" || logLine.MatchString(l) {
						continue
					}
					if strings.HasPrefix(l, "failed to ") {
						l = "!"
					}
					data = append(data, l)
				}
				impl := ""
				switch {
				case code == 2 && calls == "":
					impl = "refused"
				case code == 1 && calls == "":
					impl = "refused-usage"
				case code == 0 && len(real) == 0:
					impl = "nothing"
				default:
					impl = fmt.Sprintf("go | calls=%s | out=%s", calls, strings.Join(data, "\x1e"))
				}
				items[i] = item{modelLine: fmt.Sprintf("cli %s %s %d %s", e, w, u, strings.Join(model, " ")), impl: impl,
					key: strings.Join(classes, ",") + "/" + e + w + "/" + strings.SplitN(impl, " ", 2)[0], human: strings.Join(real, " ")}
			}(i)
		}
		wg.Wait()
		var lines []string
		var idx []int
		for i, it := range items {
			if it.modelLine != "" {
				lines = append(lines, it.modelLine)
				idx = append(idx, i)
			}
		}
		outs, err := runModel(lines)
		if err != nil {
			return err
		}
		for k, i := range idx {
			it := items[i]
			want := outs[k]
			// model error lines are "!<err>": the CLI prints "failed to …: <text>"; compare as "!"
			wp := strings.SplitN(want, " | out=", 2)
			if len(wp) == 2 {
				var ls []string
				for _, l := range strings.Split(wp[1], "\x1e") {
					if strings.HasPrefix(l, "!") {
						l = "!"
					}
					if l != "" {
						ls = append(ls, substFloats(l))
					}
				}
				want = wp[0] + " | out=" + strings.Join(ls, "\x1e")
			}
			res.Eval(it.key, true, "modbus-cli "+it.human+" => "+shorten(strings.ReplaceAll(it.impl, "\x1e", " ⏎ "), 300))
			if want != it.impl {
				kind := "property"
				note := "the CLI did not perform the documented operation (requests received by the device / printed values differ)"
				if strings.HasPrefix(want, "refused") != strings.HasPrefix(it.impl, "refused") {
					note = "acceptance of the command line differs from the documented grammar"
					if strings.HasPrefix(want, "refused") && strings.Contains(it.impl, "calls=call") {
						note = "a malformed invocation sent requests before being refused"
					}
				}
				res.Add(Finding{Kind: kind, Check: "cli", Line: it.modelLine + "   [real arguments: " + it.human + "]", Impl: strings.ReplaceAll(it.impl, "\x1e", " ⏎ "), Expect: strings.ReplaceAll(want, "\x1e", " ⏎ "), Note: note})
			}
		}
		return nil
	}
}
