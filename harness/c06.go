package main

import (
	"fmt"
	"strings"
	"sync"
	"sync/atomic"
	"time"

	"github.com/simonvetter/modbus"
)

const digestMod = 2305843009213693951

func mulmod(a, b, m uint64) uint64 {
	var r uint64
	a %= m
	for b > 0 {
		if b&1 == 1 {
			r = (r + a) % m
		}
		a = (a * 2) % m
		b >>= 1
	}
	return r
}

func crcStepDigest(lo, hi int) uint64 {
	acc := uint64(7)
	for s := lo; s < hi; s++ {
		for b := 0; b < 256; b++ {
			acc = (mulmod(acc, 1000003, digestMod) + uint64(modbus.VerifCRCStep(uint16(s), byte(b)))) % digestMod
		}
	}
	return acc
}

// corruptions of a valid RTU reply, in transmission bit order (bit p = bit p%8 of byte p/8)
func flipBits(f []byte, bits []int) []byte {
	out := append([]byte(nil), f...)
	for _, p := range bits {
		out[p/8] ^= 1 << uint(p%8)
	}
	return out
}

type corruption struct {
	label string
	bits  []int
}

func genCorruptions(r *Rng, nbits int, tier string) []corruption {
	var cs []corruption
	for p := 0; p < nbits; p++ { // every single-bit error
		cs = append(cs, corruption{"single", []int{p}})
	}
	npairs := scale(tier, 120, 2500)
	if nbits*(nbits-1)/2 <= npairs { // all pairs of short frames
		for a := 0; a < nbits; a++ {
			for b := a + 1; b < nbits; b++ {
				cs = append(cs, corruption{"double", []int{a, b}})
			}
		}
	} else {
		for i := 0; i < npairs; i++ {
			a, b := r.Intn(nbits), r.Intn(nbits)
			if a != b {
				cs = append(cs, corruption{"double", []int{a, b}})
			}
		}
	}
	for i := 0; i < scale(tier, 120, 2500); i++ { // bursts of length 2..16 anywhere
		l := 2 + r.Intn(15)
		if l > nbits {
			l = nbits
		}
		start := r.Intn(nbits - l + 1)
		bits := []int{start, start + l - 1}
		for p := start + 1; p < start+l-1; p++ {
			if r.Bool() {
				bits = append(bits, p)
			}
		}
		cs = append(cs, corruption{"burst", bits})
	}
	// odd-weight patterns (3, 5, 7 or 9 flipped bits anywhere in the frame): the generator has the
	// factor x+1, so none of them can pass (Props/C06Odd: odd_weight_detected, any frame length)
	for i := 0; i < scale(tier, 60, 1000) && nbits >= 9; i++ {
		k := 3 + 2*r.Intn(4)
		seen := map[int]bool{}
		var bits []int
		for len(bits) < k {
			p := r.Intn(nbits)
			if !seen[p] {
				seen[p] = true
				bits = append(bits, p)
			}
		}
		label := "odd"
		if k == 3 {
			label = "triple"
		}
		cs = append(cs, corruption{label, bits})
	}
	return cs
}

// the F7 witness (kept in the corpus): read 2 holding registers; byte count bit 2 flipped; the
// first two data bytes happen to be the CRC of the shortened header
var f7Reply = []byte{0x01, 0x03, 0x00, 0x20, 0xf0, 0x12, 0x34, 0xfc, 0xb7}

func c06Ops(r *Rng) []*Op {
	return []*Op{
		{Name: "ReadRegisters", Addr: 0, Qty: 2},
		{Name: "ReadRegisters", Addr: genAddr(r) & 0x7fff, Qty: uint16(1 + r.Intn(5))},
		{Name: "ReadCoils", Addr: genAddr(r) & 0x7fff, Qty: uint16(1 + r.Intn(40))},
		{Name: "WriteRegister", Addr: genAddr(r), U16: uint16(r.U64())},
		{Name: "WriteCoil", Addr: genAddr(r), B: r.Bool()},
		{Name: "WriteRegisters", Addr: genAddr(r) & 0x7fff, U16s: []uint16{uint16(r.U64()), uint16(r.U64())}},
		{Name: "ReadUint32", Addr: genAddr(r) & 0x7fff, RT: 1},
	}
}

func init() {
	checks["C06"] = func(tier string, seed uint64, res *Result) error {
		res.Rule = "CRC: random byte strings fed in random pieces vs table-driven model and bit-serial reference; every assembled RTU frame ends with the reference CRC; one-byte transition digest over states x 256 bytes (quick: 4096 states, thorough: all 65536); real RTU client (rtuovertcp, rtu): valid replies x every single-bit flip, bit pairs, bursts <= 16, odd-weight patterns of 3..9 bits, random CRC fields, each followed by a clean exchange (resynchronisation); distinct = (check, op, corruption class, outcome)"
		r := NewRng(seed)
		// (1) checksum of random strings under random feeding; frames end with the reference CRC
		var cs []kv
		for i := 0; i < scale(tier, 3000, 60000); i++ {
			n := r.Intn(300)
			if r.Chance(1, 10) {
				n = r.Intn(4)
			}
			data := r.Bytes(n)
			chunks := randomChunks(r, data)
			got := hx(modbus.VerifCRC(chunks...))
			cs = append(cs, kv{"crc " + hx(data), got, fmt.Sprintf("crc/len%d/chunks%d", n/32, min(len(chunks), 4))})
			if n >= 2 {
				fr := modbus.VerifAssembleRTU(data[0], data[1], data[2:])
				c := refCRC(data)
				if len(fr) != n+2 || fr[n] != byte(c) || fr[n+1] != byte(c>>8) || hx(fr[:n]) != hx(data) {
					res.Add(Finding{Kind: "property", Check: "frame-crc", Line: "assemble " + hx(data), Impl: hx(fr), Expect: hx(append(append([]byte(nil), data...), byte(c), byte(c>>8))), Note: "RTU frame does not end with CRC-16/MODBUS low byte first"})
				}
				if !modbus.VerifCRCIsEqual(data, byte(c), byte(c>>8)) || modbus.VerifCRCIsEqual(data, byte(c)^1, byte(c>>8)) {
					res.Add(Finding{Kind: "property", Check: "crc-isequal", Line: "isequal " + hx(data), Impl: "wrong", Expect: "accept exactly the reference CRC"})
				}
			}
		}
		lines := make([]string, len(cs))
		for i := range cs {
			lines[i] = cs[i].line
		}
		outs, err := runModel(lines)
		if err != nil {
			return err
		}
		for i, c := range cs {
			res.Eval(c.key, true, c.line+" => "+c.impl)
			p := strings.Split(outs[i], " ref=")
			if len(p) != 2 {
				return fmt.Errorf("unexpected model output %q", outs[i])
			}
			if p[1] != c.impl {
				res.Add(Finding{Kind: "property", Check: "crc", Line: c.line, Impl: c.impl, Expect: p[1], Note: "checksum differs from bit-serial CRC-16/MODBUS"})
			} else if p[0] != c.impl {
				res.Add(Finding{Kind: "correspondence", Check: "crc", Line: c.line, Impl: c.impl, Expect: p[0]})
			}
		}
		// (1b) frames assembled concurrently by several goroutines (as several RTU clients / server
		// sessions in one process do): each must carry its own CRC
		{
			var cwg sync.WaitGroup
			var bad int64
			var firstBad atomic.Value
			per := scale(tier, 60000, 400000)
			for g := 0; g < 8; g++ {
				cwg.Add(1)
				go func(g int) {
					defer cwg.Done()
					gr := NewRng(seed).Fork(uint64(600 + g))
					pl := gr.Bytes(1 + gr.Intn(20))
					for i := 0; i < per; i++ {
						pl[0] = byte(i)
						fr := modbus.VerifAssembleRTU(byte(g+1), 3, pl)
						c := refCRC(fr[:len(fr)-2])
						if fr[len(fr)-2] != byte(c) || fr[len(fr)-1] != byte(c>>8) {
							if atomic.AddInt64(&bad, 1) == 1 {
								firstBad.Store(hx(fr))
							}
						}
					}
				}(g)
			}
			cwg.Wait()
			res.Evaluations += 8 * per
			res.Eval("concurrent-assembly", true, fmt.Sprintf("8 goroutines x %d frames assembled concurrently", per))
			if bad > 0 {
				fb, _ := firstBad.Load().(string)
				res.Add(Finding{Kind: "property", Check: "sent-frame-crc", Line: fmt.Sprintf("8 goroutines assembling RTU frames concurrently (%d frames each)", per), Impl: fmt.Sprintf("%d frames with a foreign CRC, e.g. %s", bad, fb),
					Expect: "every frame ends with the CRC of its own bytes", Note: "frames assembled at the same time by different transports got each other's CRC"})
			}
		}
		// (2) transition digest
		nstates := scale(tier, 4096, 65536)
		stride := 65536 / nstates
		var dlines []string
		var dimpl []string
		blocks := 16
		var wg sync.WaitGroup
		dimpl = make([]string, blocks)
		for b := 0; b < blocks; b++ {
			lo := b * (65536 / blocks)
			hi := lo + (65536/blocks)/stride
			dlines = append(dlines, fmt.Sprintf("crcdigest %d %d", lo, hi))
			wg.Add(1)
			go func(b, lo, hi int) {
				defer wg.Done()
				dimpl[b] = fmt.Sprint(crcStepDigest(lo, hi))
			}(b, lo, hi)
		}
		wg.Wait()
		douts, err := runModelParallel(dlines)
		if err != nil {
			return err
		}
		for b := range dlines {
			res.Eval("crcdigest/"+fmt.Sprint(b), true, dlines[b]+" => "+dimpl[b])
			res.Evaluations += (65536 / blocks / stride) * 256
			if douts[b] != dimpl[b] {
				// locate the first differing (state, byte)
				p := strings.Fields(dlines[b])
				var lo, hi int
				fmt.Sscan(p[1], &lo)
				fmt.Sscan(p[2], &hi)
				first := "?"
				var sl []string
				var pairs [][2]int
				for s := lo; s < hi && len(sl) < 300000; s++ {
					for x := 0; x < 256; x++ {
						sl = append(sl, fmt.Sprintf("crcstep %d %d", s, x))
						pairs = append(pairs, [2]int{s, x})
					}
				}
				if so, err := runModel(sl); err == nil {
					for k := range sl {
						if so[k] != fmt.Sprint(modbus.VerifCRCStep(uint16(pairs[k][0]), byte(pairs[k][1]))) {
							first = sl[k] + " model=" + so[k] + " impl=" + fmt.Sprint(modbus.VerifCRCStep(uint16(pairs[k][0]), byte(pairs[k][1])))
							break
						}
					}
				}
				res.Add(Finding{Kind: "property", Check: "crcstep", Line: dlines[b], Impl: dimpl[b], Expect: douts[b], Note: "CRC byte transition differs from the model (= bit-serial reference by theorem): " + first})
			}
		}
		if nstates == 65536 {
			res.Exhaustive = true
		}
		// (3) corruption of valid replies on the real RTU client + resynchronisation
		var mu sync.Mutex
		var pairs [][2]string
		var wg2 sync.WaitGroup
		workers := 16
		for wi := 0; wi < workers; wi++ {
			wg2.Add(1)
			go func(wi int) {
				defer wg2.Done()
				wr := NewRng(seed).Fork(uint64(500 + wi))
				kind := []string{"rtuovertcp", "rtu"}[wi%2]
				s, err := newSession(kind)
				if err != nil {
					res.Note(err.Error())
					return
				}
				var local [][2]string
				ops := c06Ops(wr)
				if wi == 0 {
					ops = ops[:1] // worker 0 always runs the corpus case (F7 witness) first
				}
				for oi, op := range ops {
					if oi%workers != wi%len(ops) && wi != 0 && len(ops) > 1 && (oi+wi)%3 != 0 {
						continue
					}
					// learn the valid reply for this op
					var good []byte
					line, impl, w0 := s.exchange(op, "timeout", true, func(w wireReq) [][]byte {
						good = rtuFrame(w.unit, w.fc, taggedReply(w, 0x1234))
						return [][]byte{good}
					})
					local = append(local, [2]string{line, impl})
					if !isOK(impl) {
						res.Add(Finding{Kind: "property", Check: "valid-reply", Line: line, Impl: impl, Expect: "ok", Note: "a valid RTU reply was not accepted"})
						continue
					}
					bases := []struct {
						label string
						frame []byte
					}{{"", good}}
					{ // valid exception replies (from the addressed unit and from a gateway, unit 255), received alone
						w := w0
						if w.ok {
							code := []byte{1, 2, 3, 4, 5, 6, 8, 10, 11}[wr.Intn(9)]
							bases = append(bases, struct {
								label string
								frame []byte
							}{"exc/", rtuFrame(w.unit, w.fc|0x80, []byte{code})})
							if wi%4 == 1 {
								bases = append(bases, struct {
									label string
									frame []byte
								}{"excgw/", rtuFrame(0xff, w.fc|0x80, []byte{0x0b})})
							}
						}
					}
					for _, base := range bases {
						good := base.frame
						if base.label != "" {
							line, impl, _ := s.exchange(op, "timeout", true, func(w wireReq) [][]byte { return [][]byte{good} })
							local = append(local, [2]string{line, impl})
							if isOK(impl) || !strings.HasPrefix(field(impl, "r"), "err:Err") || field(impl, "r") == "err:ErrBadCRC" || field(impl, "r") == "err:ErrProtocolError" || field(impl, "r") == "err:ErrRequestTimedOut" {
								res.Add(Finding{Kind: "property", Check: "valid-exception", Line: line, Impl: impl, Expect: "the mapped exception error", Note: "a valid RTU exception reply was not reported as its exception"})
								continue
							}
						}
						var cors []corruption
						if wi == 0 && base.label == "" {
							cors = append(cors, corruption{"corpus-f7", nil})
						}
						cors = append(cors, genCorruptions(wr, len(good)*8, tier)...)
						for i := 0; i < 20; i++ {
							cors = append(cors, corruption{"crcfield", nil})
						}
						for _, c := range cors {
							bad := flipBits(good, c.bits)
							switch c.label {
							case "crcfield":
								bad = append([]byte(nil), good...)
								bad[len(bad)-2], bad[len(bad)-1] = byte(wr.U64()), byte(wr.U64())
								if hx(bad) == hx(good) {
									bad[len(bad)-1] ^= 0x40
								}
							case "corpus-f7":
								bad = f7Reply
							}
							line, impl, _ := s.exchange(op, "timeout", true, func(w wireReq) [][]byte { return randomChunks(wr, bad) })
							local = append(local, [2]string{line, impl})
							// every RTU frame SENT ends with the CRC of the preceding bytes (16 clients
							// assemble frames concurrently in this process)
							if sent := unhx(strings.SplitN(field(impl, "w"), "|", 2)[0]); len(sent) >= 4 {
								c := refCRC(sent[:len(sent)-2])
								if sent[len(sent)-2] != byte(c) || sent[len(sent)-1] != byte(c>>8) {
									res.Add(Finding{Kind: "property", Check: "sent-frame-crc", Line: line, Impl: hx(sent), Expect: fmt.Sprintf("…%02x%02x", byte(c), byte(c>>8)),
										Note: "a request frame written by the RTU client does not end with the CRC-16/MODBUS of its preceding bytes"})
								}
							}
							res.Eval("corrupt/"+base.label+op.Name+"/"+c.label+"/"+field(impl, "r"), true, line+" => "+impl)
							res.Count("corruption:" + base.label + c.label)
							if isOK(impl) {
								res.Add(Finding{Kind: "property", Check: "corruption-accepted", Line: line, Impl: impl, Expect: "an error", Note: c.label + " error in an RTU reply was reported as success"})
							}
							if c.label == "crcfield" && field(impl, "r") != "err:ErrBadCRC" {
								res.Add(Finding{Kind: "property", Check: "crcfield", Line: line, Impl: impl, Expect: "err:ErrBadCRC"})
							}
							// resynchronisation: the next exchange with a well-behaved device must succeed
							pendAfter := field(impl, "pend")
							line2, impl2, _ := s.exchange(op, "timeout", false, func(w wireReq) [][]byte {
								return [][]byte{rtuFrame(w.unit, w.fc, taggedReply(w, 0x4321))}
							})
							local = append(local, [2]string{line2, impl2})
							if !isOK(impl2) {
								note := "after a rejected corrupted reply the next exchange with a well-behaved device failed"
								if pendAfter != "-" && field(impl, "r") != "err:ErrBadCRC" && field(impl, "r") != "err:ErrShortFrame" {
									note = "F7-class: transport accepted a shortened frame, client-level validation rejected it without flushing; " + fmt.Sprint(len(pendAfter)/2) + " bytes stayed queued; " + note
								}
								res.Add(Finding{Kind: "property", Check: "resync", Line: line + " ;; " + line2, Impl: impl + " ;; " + impl2, Expect: "second exchange ok", Note: note})
							}
						}
					}
				}
				mu.Lock()
				pairs = append(pairs, local...)
				mu.Unlock()
			}(wi)
		}
		wg2.Wait()
		pacedResync(res)
		return modelCheck("cex", pairs, res)
	}
}

// pacedResync: a correct device answers at line rate (one character time per byte); a single bit
// flipped in the byte count makes the reply look shorter than it is, the CRC test fails, and the
// rest of the reply is still arriving. After the rejection the next exchange with that device must
// succeed (the re-synchronisation wait has to outlast the longest frame).
func pacedResync(res *Result) {
	for _, rate := range []uint{9600, 19200} {
		for _, qty := range []uint16{60, 100} {
			t1, _ := modbus.VerifSerialTimings(rate)
			conn := &TimedConn{}
			mc, _, err := newTimedClient("rtuovertcp", conn, time.Second, rate)
			if err != nil {
				res.Note("paced resync: " + err.Error())
				return
			}
			exchange := 0
			conn.OnWrite = func(b []byte, at time.Time) {
				w := parseWire(true, b)
				if !w.ok {
					return
				}
				exchange++
				pl := validReplyPayload(NewRng(uint64(exchange)), w.fc, w.payload)
				if exchange == 1 {
					pl[0] ^= 0x40 // byte count 2*qty with bit 6 flipped: a shorter frame is inferred
					fr := rtuFrame(w.unit, w.fc, pl)
					pl[0] ^= 0x40
					good := rtuFrame(w.unit, w.fc, pl)
					fr[len(fr)-2], fr[len(fr)-1] = good[len(good)-2], good[len(good)-1] // the device's CRC is the one of the uncorrupted frame
					go func() {
						for i := range fr {
							conn.Feed(fr[i : i+1])
							time.Sleep(t1)
						}
					}()
					return
				}
				conn.Feed(rtuFrame(w.unit, w.fc, pl))
			}
			op := &Op{Name: "ReadRegisters", Addr: 0x100, Qty: qty}
			out1, hung1 := execBounded(op, mc, 5*time.Second)
			out2, hung2 := execBounded(op, mc, 5*time.Second)
			line := fmt.Sprintf("rtuovertcp at %d bps, ReadRegisters qty %d: reply paced at one character time per byte with bit 6 of the byte count flipped; then a clean exchange", rate, qty)
			res.Eval(fmt.Sprintf("paced-resync/%d/%d", rate, qty), true, line+" => "+shorten(out1, 30)+" ; "+shorten(out2, 30))
			if strings.HasPrefix(out1, "ok:") {
				res.Add(Finding{Kind: "property", Check: "corruption-accepted", Line: line, Impl: out1, Expect: "an error"})
			}
			if !strings.HasPrefix(out2, "ok:") || hung1 || hung2 {
				res.Add(Finding{Kind: "property", Check: "resync-paced", Line: line, Impl: out1 + " ; " + out2, Expect: "second exchange ok",
					Note: "after a rejected corrupted reply that was still arriving at line rate, the next exchange with a well-behaved device failed"})
			}
			if !hung1 && !hung2 {
				mc.Close()
			}
		}
	}
}
