package main

import (
	"errors"
	"fmt"
	"strings"
	"sync"
	"time"

	"github.com/simonvetter/modbus"
)

// scriptedHandler mirrors Driver.scripted in the Lean driver: behaviour i = script[i % len].
type scriptedHandler struct {
	mu     sync.Mutex
	script []string
	idx    int
	events *[]string
	evmu   *sync.Mutex
	addrs  []string // ClientAddr/ClientRole seen
}

var errOther = errors.New("some other error")

func behErr(b string) (error, bool) {
	if strings.HasPrefix(b, "e:") {
		n := b[2:]
		if n == "io-other" {
			return errOther, true
		}
		if e, ok := errByName[n]; ok {
			return e, true
		}
		panic("bad behaviour " + b)
	}
	return nil, false
}

func sized(b string, q int) int {
	switch b {
	case "ok":
		return q
	case "short":
		if q == 0 {
			return 0
		}
		return q - 1
	case "long":
		return q + 1
	case "huge": // a result whose length equals the quantity modulo 2^16
		return q + 65536
	}
	return 0
}

func boolAt(addr, idx, j int) bool { return (addr+j+idx)%3 == 0 || (addr+j)%7 == 2 }
func regAt(addr, idx, j int) uint16 { return uint16((addr+j)*31 + idx*7) }

func (h *scriptedHandler) next() (string, int) {
	h.mu.Lock()
	defer h.mu.Unlock()
	i := h.idx
	h.idx++
	return h.script[i%len(h.script)], i
}

func (h *scriptedHandler) log(s string, addr, role string) {
	h.evmu.Lock()
	*h.events = append(*h.events, s)
	h.addrs = append(h.addrs, addr+"|"+role)
	h.evmu.Unlock()
}

func b2i(b bool) int {
	if b {
		return 1
	}
	return 0
}

func (h *scriptedHandler) bools(addr, qty int) ([]bool, error) {
	b, i := h.next()
	if e, ok := behErr(b); ok {
		return nil, e
	}
	n := sized(b, qty)
	if b == "nil" {
		return nil, nil
	}
	out := make([]bool, n)
	for j := range out {
		out[j] = boolAt(addr, i, j)
	}
	return out, nil
}

func (h *scriptedHandler) regs(addr, qty int) ([]uint16, error) {
	b, i := h.next()
	if e, ok := behErr(b); ok {
		return nil, e
	}
	n := sized(b, qty)
	if b == "nil" {
		return nil, nil
	}
	out := make([]uint16, n)
	for j := range out {
		out[j] = regAt(addr, i, j)
	}
	return out, nil
}

func (h *scriptedHandler) HandleCoils(req *modbus.CoilsRequest) ([]bool, error) {
	h.log(fmt.Sprintf("call:coils:%d:%d:%d:%d:%s", req.UnitId, req.Addr, req.Quantity, b2i(req.IsWrite), bitsStr(req.Args)), req.ClientAddr, req.ClientRole)
	return h.bools(int(req.Addr), int(req.Quantity))
}
func (h *scriptedHandler) HandleDiscreteInputs(req *modbus.DiscreteInputsRequest) ([]bool, error) {
	h.log(fmt.Sprintf("call:discrete:%d:%d:%d", req.UnitId, req.Addr, req.Quantity), req.ClientAddr, req.ClientRole)
	return h.bools(int(req.Addr), int(req.Quantity))
}
func (h *scriptedHandler) HandleHoldingRegisters(req *modbus.HoldingRegistersRequest) ([]uint16, error) {
	h.log(fmt.Sprintf("call:holding:%d:%d:%d:%d:%s", req.UnitId, req.Addr, req.Quantity, b2i(req.IsWrite), hexU16s(req.Args)), req.ClientAddr, req.ClientRole)
	return h.regs(int(req.Addr), int(req.Quantity))
}
func (h *scriptedHandler) HandleInputRegisters(req *modbus.InputRegistersRequest) ([]uint16, error) {
	h.log(fmt.Sprintf("call:input:%d:%d:%d", req.UnitId, req.Addr, req.Quantity), req.ClientAddr, req.ClientRole)
	return h.regs(int(req.Addr), int(req.Quantity))
}

var behaviours = []string{"ok", "ok", "ok", "ok", "short", "long", "huge", "nil",
	"e:ErrIllegalFunction", "e:ErrIllegalDataAddress", "e:ErrIllegalDataValue", "e:ErrServerDeviceFailure",
	"e:ErrAcknowledge", "e:ErrServerDeviceBusy", "e:ErrMemoryParityError", "e:ErrGWPathUnavailable",
	"e:ErrGWTargetFailedToRespond", "e:ErrProtocolError", "e:ErrBadCRC", "e:ErrRequestTimedOut", "e:io-other"}

// serveScripted runs the real handleTransport on the given stream and returns the canonical
// event string (handler calls and responses in order, then closed|ended).
// serveScriptedWriteFail: like serveScripted, but every response write fails (peer gone after the
// request was fully received): the handler must still have run exactly once per complete request.
func serveScriptedWriteFail(script []string, chunks [][]byte, ending string) (ev string, h *scriptedHandler) {
	writeFail = true
	defer func() { writeFail = false }()
	return serveScripted(script, chunks, ending)
}

var writeFail = false

func serveScripted(script []string, chunks [][]byte, ending string) (ev string, h *scriptedHandler) {
	var events []string
	var evmu sync.Mutex
	h = &scriptedHandler{script: script, events: &events, evmu: &evmu}
	srv, err := modbus.NewServer(&modbus.ServerConfiguration{URL: "tcp://127.0.0.1:0", Timeout: time.Second, Logger: quietLog}, h)
	if err != nil {
		return "newserver-failed", h
	}
	conn := NewScriptConn()
	conn.Arm(chunks, ending)
	if writeFail {
		conn.WriteErr = errReset
	}
	conn.OnWrite = func(b []byte) {
		evmu.Lock()
		events = append(events, "resp:"+hx(b))
		evmu.Unlock()
	}
	func() {
		defer func() {
			if r := recover(); r != nil {
				evmu.Lock()
				events = append(events, "panic")
				evmu.Unlock()
			}
		}()
		srv.VerifServeConn(conn, "peer-addr", "")
	}()
	if conn.Spun {
		events = append(events, "spin")
	} else if len(events) == 0 || events[len(events)-1] != "panic" {
		if conn.IsClosed() {
			events = append(events, "closed")
		} else {
			events = append(events, "ended")
		}
	}
	return strings.Join(events, ";"), h
}

// ---- request stream generator ------------------------------------------------------------------

func be16b(v int) []byte { return []byte{byte(v >> 8), byte(v)} }

// genReqPDU returns (fc, payload) of a request: mostly valid, boundary heavy, sometimes corrupted.
func genReqPDU(r *Rng) (byte, []byte, string) {
	fcs := []byte{1, 2, 3, 4, 5, 6, 15, 16}
	fc := fcs[r.Intn(len(fcs))]
	if r.Chance(1, 12) {
		fc = byte(r.U64()) // all 256 function codes
	}
	addr := int(genAddr(r))
	var pl []byte
	label := "valid"
	switch fc {
	case 1, 2:
		pl = append(be16b(addr), be16b(int(clamp16(genCount(r, 2000, 1))))...)
	case 3, 4:
		pl = append(be16b(addr), be16b(int(clamp16(genCount(r, 125, 1))))...)
	case 5:
		v := []byte{0xff, 0x00}
		switch r.Intn(6) {
		case 0:
			v = []byte{0x00, 0x00}
		case 1:
			v = []byte{byte(r.U64()), 0x00}
		case 2:
			v = []byte{0xff, byte(r.U64())}
		}
		pl = append(be16b(addr), v...)
	case 6:
		pl = append(be16b(addr), r.Bytes(2)...)
	case 15:
		q := int(clamp16(genCount(r, 1968, 1)))
		if q > 2100 {
			q = 2100
		}
		n := (q + 7) / 8
		pl = append(append(be16b(addr), be16b(q)...), byte(n))
		pl = append(pl, r.Bytes(n)...)
	case 16:
		q := int(clamp16(genCount(r, 123, 1)))
		if q > 130 {
			q = 130
		}
		pl = append(append(be16b(addr), be16b(q)...), byte(2*q))
		pl = append(pl, r.Bytes(2*q)...)
	default:
		pl = r.Bytes(r.Intn(12))
	}
	// corruption of the PDU
	switch r.Intn(14) {
	case 0: // drop trailing bytes
		if len(pl) > 0 {
			pl = pl[:r.Intn(len(pl))]
			label = "pdu-short"
		}
	case 1: // extra bytes
		pl = append(pl, r.Bytes(1+r.Intn(3))...)
		label = "pdu-long"
	case 2: // byte count off
		if len(pl) > 4 {
			pl[4] += byte(1 + r.Intn(255))
			label = "bytecount"
		}
	case 3: // quantity changed without touching the data
		if len(pl) >= 4 {
			pl[3] ^= byte(1 << uint(r.Intn(8)))
			label = "qty-bit"
		}
	}
	if len(pl) > 252 {
		pl = pl[:252]
		label = "pdu-capped"
	}
	return fc, pl, label
}

func genServerStream(r *Rng) (stream []byte, labels []string) {
	n := 1 + r.Intn(4)
	for i := 0; i < n; i++ {
		fc, pl, label := genReqPDU(r)
		txn := uint16(r.U64())
		unit := byte(r.U64())
		f := mbapFrame(txn, 0, unit, fc, pl)
		switch r.Intn(16) {
		case 0: // protocol id
			f[2+r.Intn(2)] = byte(1 + r.Intn(255))
			label = "proto"
		case 1: // length field
			v := pickInt(r, []int{0, 1, 2, 254, 255, 256, 300, 65535, len(pl) + 1, len(pl) + 3})
			f[4], f[5] = byte(v>>8), byte(v)
			label = "length"
		case 2:
			f = f[:r.Intn(len(f))]
			label = "cut"
		case 3:
			f = r.Bytes(r.Intn(20))
			label = "random"
		}
		stream = append(stream, f...)
		labels = append(labels, fmt.Sprintf("fc%d/%s", fc, label))
	}
	return
}

func genScript(r *Rng) []string {
	n := 1 + r.Intn(4)
	s := make([]string, n)
	for i := range s {
		s[i] = behaviours[r.Intn(len(behaviours))]
	}
	return s
}

func stripEnded(s string) string {
	// the model says why the session ended (ended:<err>); the implementation only shows that it did
	if i := strings.LastIndex(s, "ended:"); i >= 0 && !strings.Contains(s[i:], ";") {
		return s[:i] + "ended"
	}
	return s
}

func runServerCases(seed uint64, n int, res *Result) ([]cexCase, error) {
	workers := 16
	var mu sync.Mutex
	var all []cexCase
	var wg sync.WaitGroup
	for wi := 0; wi < workers; wi++ {
		wg.Add(1)
		go func(wi int) {
			defer wg.Done()
			r := NewRng(seed).Fork(uint64(1000 + wi))
			var local []cexCase
			for i := 0; i < n; i++ {
				stream, labels := genServerStream(r)
				script := genScript(r)
				ending := []string{"timeout", "eof", "reset"}[r.Intn(3)]
				ev, h := serveScripted(script, randomChunks(r, stream), ending)
				for _, a := range h.addrs {
					if a != "peer-addr|" {
						ev += ";bad-client-addr:" + a
					}
				}
				line := fmt.Sprintf("srv %s %s %s", strings.Join(script, ","), ending, hx(stream))
				cls := "ended"
				if strings.HasSuffix(ev, "closed") {
					cls = "closed"
				} else if strings.HasSuffix(ev, "panic") {
					cls = "panic"
				}
				local = append(local, cexCase{line: line, impl: ev, label: strings.Join(labels, ","),
					key: labels[0] + "/" + script[0] + "/" + cls + fmt.Sprint(strings.Count(ev, "call:"))})
			}
			mu.Lock()
			all = append(all, local...)
			mu.Unlock()
		}(wi)
	}
	wg.Wait()
	return all, nil
}

func compareServer(check string, cases []cexCase, res *Result, withSpec ...bool) error {
	useSpec := len(withSpec) > 0 && withSpec[0]
	lines := make([]string, 0, 2*len(cases))
	for _, c := range cases {
		lines = append(lines, c.line, "srvspec"+c.line[3:])
	}
	outs, err := runModel(lines)
	if err != nil {
		return err
	}
	for i, c := range cases {
		for _, l := range strings.Split(c.label, ",") {
			res.Count("frame:" + l)
		}
		res.Eval(c.key, true, shorten(c.line, 300)+" => "+shorten(c.impl, 300))
		model, spec := stripEnded(outs[2*i]), stripEnded(outs[2*i+1])
		if useSpec && spec != c.impl {
			// property oracle (Spec.serverEvents per complete frame) disagrees with the implementation
			note := "server events differ from Spec.serverEvents"
			ie, se := strings.Split(c.impl, ";"), strings.Split(spec, ";")
			k, calls := 0, 0
			for k < len(ie) && k < len(se) && ie[k] == se[k] {
				if strings.HasPrefix(ie[k], "call:") {
					calls++
				}
				k++
			}
			script := strings.Split(strings.Fields(c.line)[1], ",")
			if k < len(ie) && ie[k] == "closed" && calls > 0 && script[(calls-1)%len(script)] == "e:ErrProtocolError" {
				note = "handler returned ErrProtocolError: connection closed without a response (expected an exception response, code 04)"
			}
			res.Add(Finding{Kind: "property", Check: "srvspec", Line: c.line, Impl: c.impl, Expect: spec, Note: note})
		} else if model != c.impl {
			res.Add(Finding{Kind: "correspondence", Check: check, Line: c.line, Impl: c.impl, Expect: model})
		}
	}
	return nil
}

func init() {
	checks["C03"] = func(tier string, seed uint64, res *Result) error {
		res.Rule = "generated MBAP request streams (1-4 pipelined frames, all supported function codes with boundary address/quantity/byte-count values, all 256 function codes, corrupted headers/PDUs, cuts, random bytes; random segmentation and ending) x scripted handlers (ok, short, long, nil, each documented error, ErrProtocolError, arbitrary error) through the real handleTransport; handler calls and response bytes in order compared with the Lean model; plus, on a real server over loopback tcp, valid requests arriving at 15-80 % of the idle window with handlers completing at 40-160 % of it (exactly one call, then exactly one response); distinct = (first frame class, first handler behaviour, end class, number of calls)"
		cases, err := runServerCases(seed, scale(tier, 1200, 25000), res)
		if err != nil {
			return err
		}
		lateRequests(tier, seed, res)
		return compareServer("srv", cases, res, true)
	}
}
