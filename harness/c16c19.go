package main

import (
	"crypto/tls"
	"crypto/x509"
	"fmt"
	"net"
	"strings"
	"sync"
	"time"

	"github.com/simonvetter/modbus"
)

var kindNames = map[uint]string{1: "rtu", 2: "rtuovertcp", 3: "rtuoverudp", 4: "tcp", 5: "tcp+tls", 6: "udp"}

// the documented table (README / property statement), written independently of the code
var documented = map[string][2]string{
	"tcp": {"tcp", "mbap"}, "udp": {"udp", "mbap"}, "tcp+tls": {"tls", "mbap"},
	"rtu": {"serial", "rtu"}, "rtuovertcp": {"tcp", "rtu"}, "rtuoverudp": {"udp", "rtu"},
}

func genURL(r *Rng) string {
	schemes := []string{"tcp", "udp", "tcp+tls", "rtu", "rtuovertcp", "rtuoverudp"}
	hosts := []string{"plc:502", "127.0.0.1:1502", "[::1]:502", "/dev/ttyUSB0", "", "a://b", "h", "höst:1", "x y"}
	sc := schemes[r.Intn(len(schemes))]
	h := hosts[r.Intn(len(hosts))]
	switch r.Intn(17) {
	case 14: // the bare scheme word, no separator, no host
		return sc
	case 15: // scheme word followed by something that is not the separator
		return sc + []string{":", ":/", "/", ":502", "//"}[r.Intn(5)]
	case 16: // separator at the very end / scheme only
		return sc + "://"
	case 0:
		return strings.ToUpper(sc) + "://" + h
	case 1:
		return sc + ":/" + h
	case 2:
		return sc + "//" + h
	case 3:
		return sc[:len(sc)-1] + "://" + h
	case 4:
		return sc + "s://" + h
	case 5:
		return "://" + h
	case 6:
		return h
	case 7:
		return ""
	case 8:
		return " " + sc + "://" + h
	case 9:
		return sc + " ://" + h
	case 10:
		return []string{"http", "modbus", "tls", "tcp+TLS", "tcp-tls", "serial", "rtuovertls"}[r.Intn(7)] + "://" + h
	case 11:
		return string(r.Bytes(r.Intn(6))) + sc + "://" + h
	default:
		return sc + "://" + h
	}
}

func validUTF8NoSpace(s string) bool {
	return strings.ToValidUTF8(s, "") == s && !strings.ContainsAny(s, " \n\r\t")
}

func b01(b bool) string {
	if b {
		return "1"
	}
	return "0"
}

func init() {
	checks["C16"] = func(tier string, seed uint64, res *Result) error {
		res.Rule = "NewClient / NewServer / SetEncoding on generated URL strings (valid schemes, near misses: case, missing slashes, truncated/extended scheme names, empty parts, embedded ://, non-ASCII, random prefixes) x all combinations of zero/non-zero optional fields x credentials present/absent, selector values 0..3 and values that look valid only in their low 8/16/32 bits; effective configuration compared with the Lean model and with the documented scheme table; per scheme one real first request over a real socket (tcp, udp, tls, pty) to observe socket type and framing; distinct = (constructor, scheme class, field mask, outcome)"
		r := NewRng(seed)
		var cs []kv
		n := scale(tier, 4000, 60000)
		for i := 0; i < n; i++ {
			url := genURL(r)
			if strings.ToValidUTF8(url, "") != url {
				continue
			}
			mask := r.Intn(64)
			conf := &modbus.ClientConfiguration{URL: url, Logger: quietLog}
			if mask&1 != 0 {
				conf.Speed = uint(pickInt(r, []int{9600, 19200, 115200, 1}))
			}
			if mask&2 != 0 {
				conf.DataBits = uint(pickInt(r, []int{7, 8, 5}))
			}
			conf.Parity = uint(pickInt(r, []int{0, 0, 1, 2, 3}))
			if mask&4 != 0 {
				conf.StopBits = uint(pickInt(r, []int{1, 2}))
			}
			if mask&8 != 0 {
				conf.Timeout = time.Duration(pickInt(r, []int{1, 5000000, 2000000000}))
			}
			if mask&16 != 0 {
				conf.TLSClientCert = &tls.Certificate{}
			}
			if mask&32 != 0 {
				conf.TLSRootCAs = x509.NewCertPool()
			}
			line := fmt.Sprintf("newclient %s %d %d %d %d %d %s %s", hx([]byte(url)), conf.Speed, conf.DataBits, conf.Parity, conf.StopBits,
				int64(conf.Timeout), b01(conf.TLSClientCert != nil), b01(conf.TLSRootCAs != nil))
			impl := guard(func() string {
				mc, err := modbus.NewClient(conf)
				if err != nil {
					// the object handed back with the error must not be usable: no transport type,
					// and Open() refuses it (no dial is attempted)
					if mc != nil {
						if tt := mc.VerifConfig().TransportType; tt != 0 {
							res.Add(Finding{Kind: "property", Check: "refused-client-usable", Line: line, Impl: fmt.Sprintf("transport type %d on the refused client", tt), Expect: "0", Note: "url=" + url})
						}
						if oerr := mc.Open(); oerr == nil || canonErr(oerr) != "ErrConfigurationError" {
							res.Add(Finding{Kind: "property", Check: "refused-client-usable", Line: line, Impl: "Open() on the refused client: " + canonErr(oerr), Expect: "ErrConfigurationError", Note: "url=" + url})
							mc.Close()
						}
					}
					return "err:" + canonErr(err)
				}
				c := mc.VerifConfig()
				k := kindNames[c.TransportType]
				doc := documented[k]
				return fmt.Sprintf("ok kind=%s url=%s speed=%d databits=%d parity=%d stopbits=%d timeout=%d unit=%d e=%d w=%d socket=%s framing=%s",
					k, hx([]byte(c.URL)), c.Speed, c.DataBits, c.Parity, c.StopBits, int64(c.Timeout), c.UnitId, c.Endianness, c.WordOrder, doc[0], doc[1])
			})
			// documented behaviour, independently: ok iff the text before the first "://" is one of the six schemes (+ credentials)
			scheme, rest, has := "", url, false
			if j := strings.Index(url, "://"); j >= 0 {
				scheme, rest, has = url[:j], url[j+3:], true
			}
			_, known := documented[scheme]
			wantOK := has && known && (scheme != "tcp+tls" || (conf.TLSClientCert != nil && conf.TLSRootCAs != nil))
			if wantOK != strings.HasPrefix(impl, "ok") || (!wantOK && impl != "err:ErrConfigurationError") {
				res.Add(Finding{Kind: "property", Check: "newclient", Line: line, Impl: impl, Expect: fmt.Sprintf("ok=%v per documented schemes", wantOK), Note: "url=" + url})
			}
			if wantOK && strings.HasPrefix(impl, "ok") {
				wantTimeout := int64(conf.Timeout)
				if wantTimeout == 0 {
					wantTimeout = 1000000000
					if scheme == "rtu" {
						wantTimeout = 300000000
					}
				}
				checks := []string{"kind=" + scheme + " ", "url=" + hx([]byte(rest)) + " ", fmt.Sprintf("timeout=%d ", wantTimeout), "unit=1 e=1 w=1"}
				if scheme == "rtu" {
					sp, db, sb := conf.Speed, conf.DataBits, conf.StopBits
					if sp == 0 {
						sp = 19200
					}
					if db == 0 {
						db = 8
					}
					if sb == 0 {
						sb = 2
						if conf.Parity != 0 {
							sb = 1
						}
					}
					checks = append(checks, fmt.Sprintf("speed=%d databits=%d parity=%d stopbits=%d ", sp, db, conf.Parity, sb))
				}
				for _, c := range checks {
					if !strings.Contains(impl, c) {
						res.Add(Finding{Kind: "property", Check: "newclient-defaults", Line: line, Impl: impl, Expect: "contains " + c, Note: "url=" + url})
					}
				}
			}
			cls := "bad"
			if known && has {
				cls = scheme
			}
			cs = append(cs, kv{line, impl, fmt.Sprintf("newclient/%s/%d/%s", cls, mask, strings.SplitN(impl, " ", 2)[0])})

			// server
			sconf := &modbus.ServerConfiguration{URL: url, Logger: quietLog}
			if mask&1 != 0 {
				sconf.Timeout = time.Duration(pickInt(r, []int{1, 30000000000}))
			}
			if mask&2 != 0 {
				sconf.MaxClients = uint(pickInt(r, []int{1, 3, 100}))
			}
			if mask&16 != 0 {
				sconf.TLSServerCert = &tls.Certificate{}
			}
			if mask&32 != 0 {
				sconf.TLSClientCAs = x509.NewCertPool()
			}
			sline := fmt.Sprintf("newserver %s %d %d %s %s", hx([]byte(url)), int64(sconf.Timeout), sconf.MaxClients, b01(sconf.TLSServerCert != nil), b01(sconf.TLSClientCAs != nil))
			simpl := guard(func() string {
				ms, err := modbus.NewServer(sconf, &scriptedHandler{script: []string{"ok"}, events: &[]string{}, evmu: &sync.Mutex{}})
				if err != nil {
					if ms != nil { // the refused server must not start listening
						if serr := ms.Start(); serr == nil || canonErr(serr) != "ErrConfigurationError" {
							res.Add(Finding{Kind: "property", Check: "refused-server-usable", Line: sline, Impl: "Start() on the refused server: " + canonErr(serr), Expect: "ErrConfigurationError", Note: "url=" + url})
							ms.Stop()
						}
					}
					return "err:" + canonErr(err)
				}
				c := ms.VerifConfig()
				return fmt.Sprintf("ok tls=%s url=%s timeout=%d maxclients=%d", b01(c.TransportType == 5), hx([]byte(c.URL)), int64(c.Timeout), c.MaxClients)
			})
			swant := has && rest != "" && (scheme == "tcp" || (scheme == "tcp+tls" && sconf.TLSServerCert != nil && sconf.TLSClientCAs != nil))
			if swant != strings.HasPrefix(simpl, "ok") || (!swant && simpl != "err:ErrConfigurationError") {
				res.Add(Finding{Kind: "property", Check: "newserver", Line: sline, Impl: simpl, Expect: fmt.Sprintf("ok=%v per documented schemes", swant), Note: "url=" + url})
			}
			if swant && strings.HasPrefix(simpl, "ok") {
				wt, wm := int64(sconf.Timeout), sconf.MaxClients
				if wt == 0 {
					wt = 120000000000
				}
				if wm == 0 {
					wm = 10
				}
				want := fmt.Sprintf("ok tls=%s url=%s timeout=%d maxclients=%d", b01(scheme == "tcp+tls"), hx([]byte(rest)), wt, wm)
				if simpl != want {
					res.Add(Finding{Kind: "property", Check: "newserver-defaults", Line: sline, Impl: simpl, Expect: want})
				}
			}
			cs = append(cs, kv{sline, simpl, fmt.Sprintf("newserver/%s/%d/%s", cls, mask&51, strings.SplitN(simpl, " ", 2)[0])})
		}
		// selectors: all values 0..3 from every valid starting state
		mc, _, err := newScriptedClient("tcp")
		if err != nil {
			return err
		}
		for _, e0 := range []uint{1, 2} {
			for _, w0 := range []uint{1, 2} {
				// 0..3 and selectors that look valid only in their low byte / low 16 or 32 bits
				sel := []uint{0, 1, 2, 3, 255, 256, 257, 258, 513, 514, 65537, 65538, 1<<32 + 1, 1<<32 + 2, ^uint(0), ^uint(0) - 253}
				for _, e := range sel {
					for _, w := range sel {
						if e > 3 && w > 3 && (e+w)%5 != 0 {
							continue
						}
						mc.SetEncoding(modbus.Endianness(e0), modbus.WordOrder(w0))
						err := mc.SetEncoding(modbus.Endianness(e), modbus.WordOrder(w))
						c := mc.VerifConfig()
						impl := fmt.Sprintf("ok e=%d w=%d", c.Endianness, c.WordOrder)
						if err != nil {
							impl = fmt.Sprintf("err:%s e=%d w=%d", canonErr(err), c.Endianness, c.WordOrder)
						}
						valid := (e == 1 || e == 2) && (w == 1 || w == 2)
						want := fmt.Sprintf("ok e=%d w=%d", e, w)
						if !valid {
							want = fmt.Sprintf("err:ErrUnexpectedParameters e=%d w=%d", e0, w0)
						}
						line := fmt.Sprintf("setenc %d %d %d %d", e0, w0, e, w)
						if impl != want {
							res.Add(Finding{Kind: "property", Check: "setencoding", Line: line, Impl: impl, Expect: want})
						}
						cs = append(cs, kv{line, impl, "setenc/" + fmt.Sprint(valid, e, w)})
					}
				}
			}
		}
		if err := compareLines("config", cs, res); err != nil {
			return err
		}
		realWiring(res)
		return nil
	}

	checks["C19"] = func(tier string, seed uint64, res *Result) error {
		res.Rule = "character time and inter-frame delay from newRTUTransport for every baud rate 1..N (quick N = 400000 plus decade boundaries to 10^7, thorough N = 10^7) compared by digest with the Lean model (bisection on mismatch) and pointwise with the closed forms floor(11e9/rate), floor(35*t1/10) below 19200, 1750000 ns from 19200; observed silence between the end of a received reply and the next request on rtuovertcp at sampled rates (supporting); distinct = rate decade x regime"
		nmax := scale(tier, 400000, 10000000)
		// property oracle, pointwise, in Go
		for rate := 1; rate <= nmax; rate++ {
			t1, t35 := modbus.VerifSerialTimings(uint(rate))
			w1 := int64(11000000000 / int64(rate))
			w35 := int64(1750000)
			if rate < 19200 {
				w35 = w1 * 35 / 10
			}
			if int64(t1) != w1 || int64(t35) != w35 {
				res.Add(Finding{Kind: "property", Check: "timing", Line: fmt.Sprintf("timing %d", rate), Impl: fmt.Sprintf("%d %d", int64(t1), int64(t35)), Expect: fmt.Sprintf("%d %d", w1, w35),
					Note: "character time must be eleven bit times; t3.5 = 3.5 character times below 19200 bps, 1750 us from 19200 bps"})
				if len(res.Findings) > 20 {
					break
				}
			}
		}
		res.Evaluations += nmax
		// correspondence by digest, 16 blocks
		blocks := 16
		var lines, impl []string
		impl = make([]string, blocks)
		var wg sync.WaitGroup
		for b := 0; b < blocks; b++ {
			lo, hi := 1+b*(nmax/blocks), 1+(b+1)*(nmax/blocks)
			lines = append(lines, fmt.Sprintf("timingdigest %d %d", lo, hi))
			wg.Add(1)
			go func(b, lo, hi int) {
				defer wg.Done()
				acc := uint64(7)
				for rate := lo; rate < hi; rate++ {
					t1, t35 := modbus.VerifSerialTimings(uint(rate))
					acc = (mulmod(acc, 1000003, digestMod) + uint64(t1)) % digestMod
					acc = (mulmod(acc, 1000003, digestMod) + uint64(t35)) % digestMod
				}
				impl[b] = fmt.Sprint(acc)
			}(b, lo, hi)
		}
		wg.Wait()
		outs, err := runModelParallel(lines)
		if err != nil {
			return err
		}
		for b := range lines {
			res.Eval(fmt.Sprintf("digest/%d", b), true, lines[b]+" => "+impl[b])
			if outs[b] != impl[b] {
				res.Add(Finding{Kind: "correspondence", Check: "timingdigest", Line: lines[b], Impl: impl[b], Expect: outs[b]})
			}
		}
		// decade boundaries and the threshold, line by line
		var cs []kv
		for _, rate := range []int{1, 2, 9, 10, 11, 75, 110, 300, 1200, 2400, 4800, 9600, 14400, 19199, 19200, 19201, 38400, 57600, 115200, 230400, 460800, 921600, 1000000, 9999999, 10000000, 10000001, 100000000, 2000000000} {
			t1, t35 := modbus.VerifSerialTimings(uint(rate))
			regime := "low"
			if rate >= 19200 {
				regime = "high"
			}
			cs = append(cs, kv{fmt.Sprintf("timing %d", rate), fmt.Sprintf("%d %d", int64(t1), int64(t35)), fmt.Sprintf("timing/%d/%s", len(fmt.Sprint(rate)), regime)})
		}
		if err := compareLines("timing", cs, res); err != nil {
			return err
		}
		observeSilence(tier, res)
		silenceAfterErrorPath(res)
		return nil
	}
}

// silenceAfterErrorPath: at 2400 bps a reply with a corrupted (shortened) byte count is rejected by
// the CRC; the tail of the frame keeps arriving while the client waits 256 character times and is
// read by the flush. The next request must not start earlier than t3.5 after those last bytes.
func silenceAfterErrorPath(res *Result) {
	const rate = 2400
	t1, t35 := modbus.VerifSerialTimings(rate)
	conn := &TimedConn{}
	mc, err := modbus.VerifNewClientOnConn(&modbus.ClientConfiguration{URL: "rtuovertcp://timed", Speed: rate, Timeout: 4 * time.Second, Logger: quietLog}, conn)
	if err != nil {
		res.Note("silence-after-error: " + err.Error())
		return
	}
	stage := 0
	var tailAt, thirdAt time.Time
	var tail []byte
	conn.OnWrite = func(b []byte, at time.Time) {
		w := parseWire(true, b)
		switch stage {
		case 0: // a normal exchange
			conn.Feed(rtuFrame(w.unit, w.fc, validReplyPayload(NewRng(1), w.fc, w.payload)))
		case 1: // corrupted byte count: the transport sees a 7-byte frame with a bad CRC
			good := rtuFrame(w.unit, w.fc, validReplyPayload(NewRng(2), w.fc, w.payload))
			bad := append([]byte(nil), good...)
			bad[2] = 2
			conn.Feed(bad[:40])
			tail = bad[40:]
			// request (n bytes) + t3.5 + 256 character times after the write the flush starts; the tail lands 8 ms before
			d := time.Duration(len(b))*t1 + t35 + 256*t1 - 8*time.Millisecond
			go func() {
				time.Sleep(time.Until(at.Add(d)))
				conn.Feed(tail)
				tailAt = time.Now()
			}()
		case 2:
			thirdAt = at
			conn.Feed(rtuFrame(w.unit, w.fc, validReplyPayload(NewRng(3), w.fc, w.payload)))
		}
		stage++
	}
	op := &Op{Name: "ReadRegisters", Addr: 1, Qty: 100}
	out1 := op.Exec(mc)
	out2 := op.Exec(mc)
	left := conn.PendingLen()
	out3 := op.Exec(mc)
	gap := thirdAt.Sub(tailAt)
	res.Eval("silence-after-error", true, fmt.Sprintf("2400 bps: %s / %s / %s; tail read by flush: %v; next request %v after the last received byte (t3.5 = %v)", shorten(out1, 12), out2, shorten(out3, 12), left == 0, gap, t35))
	res.Note(fmt.Sprintf("error-path silence at 2400 bps: second exchange %s, %d bytes left after flush, next request %v after the last received byte (t3.5 = %v)", out2, left, gap, t35))
	if !strings.HasPrefix(out1, "ok:") || strings.HasPrefix(out2, "ok:") {
		res.Add(Finding{Kind: "property", Check: "silence-after-error", Line: "2400 bps scenario", Impl: out1 + " / " + out2, Expect: "ok / error"})
		return
	}
	if left == 0 && !tailAt.IsZero() && gap+time.Millisecond < t35 {
		res.Add(Finding{Kind: "property", Check: "silence-after-error", Line: "rtuovertcp 2400 bps: valid exchange; reply with byte count corrupted to 2 whose tail arrives during the 256-character wait; next request",
			Impl: fmt.Sprintf("next request sent %v after the last received byte", gap), Expect: fmt.Sprintf(">= %v", t35),
			Note: "a request started earlier than the inter-frame delay after the end of the previously received frame"})
	}
}

// realWiring: one real first request per scheme, to observe the socket type and framing Open() selects.
func realWiring(res *Result) {
	op := &Op{Name: "ReadRegisters", Addr: 0x10, Qty: 1}
	expectMBAP := "000100000006010300100001"
	expectRTU := hx(rtuFrame(1, 3, []byte{0, 0x10, 0, 1}))
	report := func(scheme, got string, frame []byte) {
		want := expectMBAP
		if documented[scheme][1] == "rtu" {
			want = expectRTU
		}
		res.Eval("real/"+scheme, true, scheme+" first request over "+got+": "+hx(frame))
		if got != documented[scheme][0] || hx(frame) != want {
			res.Add(Finding{Kind: "property", Check: "real-wiring", Line: scheme + "://… ReadRegisters 16 1", Impl: got + " " + hx(frame), Expect: documented[scheme][0] + " " + want,
				Note: "socket type / framing differ from the documented scheme table"})
		}
	}
	roundTrip := func(scheme, out string) {
		res.Eval("real-roundtrip/"+scheme, true, scheme+" first exchange: "+out)
		if out != "ok:h:abcd" {
			res.Add(Finding{Kind: "property", Check: "real-wiring-roundtrip", Line: scheme + "://… ReadRegisters 16 1 answered by a valid reply", Impl: out, Expect: "ok:h:abcd",
				Note: "a client of this scheme cannot complete an exchange over its documented socket type (half-working object)"})
		}
	}
	// tcp-based
	for _, scheme := range []string{"tcp", "rtuovertcp"} {
		ln, err := net.Listen("tcp", "127.0.0.1:0")
		if err != nil {
			res.Note("listen: " + err.Error())
			return
		}
		got := make(chan []byte, 1)
		go func() {
			c, err := ln.Accept()
			if err != nil {
				got <- nil
				return
			}
			buf := make([]byte, 300)
			c.SetReadDeadline(time.Now().Add(time.Second))
			n, _ := c.Read(buf)
			w := parseWire(isRTUKind(scheme), buf[:n])
			if w.ok {
				c.Write(w.frame(w.unit, w.fc, []byte{2, 0xab, 0xcd}))
			}
			got <- buf[:n]
			time.Sleep(20 * time.Millisecond)
			c.Close()
		}()
		mc, err := modbus.NewClient(&modbus.ClientConfiguration{URL: scheme + "://" + ln.Addr().String(), Timeout: 100 * time.Millisecond, Speed: 1000000, Logger: quietLog})
		if err == nil && mc.Open() == nil {
			out := op.Exec(mc)
			report(scheme, "tcp", <-got)
			roundTrip(scheme, out)
			mc.Close()
		} else {
			res.Add(Finding{Kind: "property", Check: "real-wiring", Line: scheme, Impl: fmt.Sprint(err), Expect: "client opens"})
		}
		ln.Close()
	}
	for _, scheme := range []string{"udp", "rtuoverudp"} {
		pc, err := net.ListenUDP("udp", &net.UDPAddr{IP: net.IPv4(127, 0, 0, 1)})
		if err != nil {
			res.Note("udp: " + err.Error())
			return
		}
		mc, err := modbus.NewClient(&modbus.ClientConfiguration{URL: scheme + "://" + pc.LocalAddr().String(), Timeout: 100 * time.Millisecond, Speed: 1000000, Logger: quietLog})
		if err == nil && mc.Open() == nil {
			outc := make(chan string, 1)
			go func() { outc <- op.Exec(mc) }()
			buf := make([]byte, 300)
			pc.SetReadDeadline(time.Now().Add(time.Second))
			n, from, _ := pc.ReadFromUDP(buf)
			report(scheme, "udp", buf[:n])
			if w := parseWire(isRTUKind(scheme), buf[:n]); w.ok && from != nil {
				pc.WriteToUDP(w.frame(w.unit, w.fc, []byte{2, 0xab, 0xcd}), from) // the whole reply in one datagram
			}
			roundTrip(scheme, <-outc)
			mc.Close()
		} else {
			res.Add(Finding{Kind: "property", Check: "real-wiring", Line: scheme, Impl: fmt.Sprint(err), Expect: "client opens"})
		}
		pc.Close()
	}
	// tls
	ca, err := mint(certSpec{cn: "ca", isCA: true})
	if err == nil {
		srvCert, _ := mint(certSpec{cn: "server", parent: ca, ips: []net.IP{net.IPv4(127, 0, 0, 1)}, extKeyUse: []x509.ExtKeyUsage{x509.ExtKeyUsageServerAuth}})
		cliCert, _ := mint(certSpec{cn: "client", parent: ca, extKeyUse: []x509.ExtKeyUsage{x509.ExtKeyUsageClientAuth}})
		ln, err := tls.Listen("tcp", "127.0.0.1:0", &tls.Config{Certificates: []tls.Certificate{*srvCert.tlsCert()}, ClientCAs: poolOf(ca), ClientAuth: tls.RequireAndVerifyClientCert})
		if err == nil {
			got := make(chan []byte, 1)
			go func() {
				c, err := ln.Accept()
				if err != nil {
					got <- nil
					return
				}
				buf := make([]byte, 300)
				c.SetReadDeadline(time.Now().Add(2 * time.Second))
				n, _ := c.Read(buf)
				got <- buf[:n]
				c.Close()
			}()
			mc, err := modbus.NewClient(&modbus.ClientConfiguration{URL: "tcp+tls://" + ln.Addr().String(), Timeout: 300 * time.Millisecond, TLSClientCert: cliCert.tlsCert(), TLSRootCAs: poolOf(ca), Logger: quietLog})
			if err == nil {
				if err = mc.Open(); err == nil {
					op.Exec(mc)
					report("tcp+tls", "tls", <-got)
					mc.Close()
				}
			}
			if err != nil {
				res.Add(Finding{Kind: "property", Check: "real-wiring", Line: "tcp+tls", Impl: fmt.Sprint(err), Expect: "client opens and handshakes"})
			}
			ln.Close()
		}
	}
	// serial: best effort through a pty
	if frame, note := ptyFirstRequest(op); note != "" {
		res.Note("serial (rtu) wiring decided on the configuration object only: " + note)
	} else {
		report("rtu", "serial", frame)
	}
}

// observeSilence: supporting evidence for C19's last sentence on rtuovertcp (scheduling tolerance).
// observeSilenceVariants: the same measurement with (a) the reply delivered in two pieces — header
// first, the rest 8 ms later — so that "end of the received frame" differs from "first bytes seen",
// and (b) the caller pausing between calls for a little less than t3.5, so that less than one
// character time of the inter-frame delay remains when the next call starts. The gap is measured
// from the peer's last write of the reply to its read of the next request.
func observeSilenceVariants(res *Result) {
	type variant struct {
		name  string
		rate  uint
		split bool
		pause func(t1, t35 time.Duration) time.Duration
	}
	vs := []variant{
		{"split-reply", 9600, true, nil}, {"split-reply", 19200, true, nil},
		{"pause-inside-last-char", 1200, false, func(t1, t35 time.Duration) time.Duration { return t35 - t1/2 }},
		{"pause-inside-last-char", 2400, false, func(t1, t35 time.Duration) time.Duration { return t35 - t1/2 }},
		{"pause-inside-last-char", 4800, false, func(t1, t35 time.Duration) time.Duration { return t35 - t1/3 }},
	}
	for _, v := range vs {
		ln, err := net.Listen("tcp", "127.0.0.1:0")
		if err != nil {
			return
		}
		t1, t35 := modbus.VerifSerialTimings(v.rate)
		ch := make(chan []time.Duration, 1)
		go func() {
			c, err := ln.Accept()
			if err != nil {
				ch <- nil
				return
			}
			defer c.Close()
			var gaps []time.Duration
			var lastReplyEnd time.Time
			buf := make([]byte, 300)
			for i := 0; i < 5; i++ {
				c.SetReadDeadline(time.Now().Add(3 * time.Second))
				n, err := c.Read(buf)
				if err != nil {
					break
				}
				now := time.Now()
				if !lastReplyEnd.IsZero() {
					gaps = append(gaps, now.Sub(lastReplyEnd))
				}
				w := parseWire(true, buf[:n])
				f := rtuFrame(w.unit, w.fc, validReplyPayload(NewRng(1), w.fc, w.payload))
				// a device on a real line cannot answer before the request has been transmitted: wait
				// out the client's emulated transmission time, so that the client reads the reply
				// when it arrives and the measured gap is the line silence
				time.Sleep(time.Duration(n)*t1 + t35 + 2*time.Millisecond)
				if v.split {
					c.Write(f[:3])
					time.Sleep(8 * time.Millisecond)
					c.Write(f[3:])
				} else {
					c.Write(f)
				}
				lastReplyEnd = time.Now()
			}
			ch <- gaps
		}()
		mc, err := modbus.NewClient(&modbus.ClientConfiguration{URL: "rtuovertcp://" + ln.Addr().String(), Speed: v.rate, Timeout: 2 * time.Second, Logger: quietLog})
		if err != nil || mc.Open() != nil {
			ln.Close()
			return
		}
		op := &Op{Name: "ReadRegisters", Addr: 1, Qty: 2}
		for i := 0; i < 5; i++ {
			op.Exec(mc)
			if v.pause != nil {
				time.Sleep(v.pause(t1, t35))
			}
		}
		mc.Close()
		gaps := <-ch
		ln.Close()
		minGap := time.Hour
		for _, g := range gaps {
			if g < minGap {
				minGap = g
			}
		}
		res.Note(fmt.Sprintf("observed silence (%s) at %d bps: gaps %v (t1 = %v, t3.5 = %v)", v.name, v.rate, gaps, t1, t35))
		res.Eval(fmt.Sprintf("silence/%s/%d", v.name, v.rate), true, fmt.Sprintf("%s at %d bps: min gap %v, t3.5 %v", v.name, v.rate, minGap, t35))
		if len(gaps) > 0 && minGap+300*time.Microsecond < t35 {
			res.Add(Finding{Kind: "property", Check: "silence", Line: fmt.Sprintf("rtuovertcp %s at %d bps", v.name, v.rate), Impl: fmt.Sprint(minGap), Expect: ">= " + fmt.Sprint(t35),
				Note: "a request started earlier than the inter-frame delay after the END of the previous reply"})
		}
	}
}

func observeSilence(tier string, res *Result) {
	observeSilenceVariants(res)
	for _, rate := range []uint{9600, 19200, 115200} {
		ln, err := net.Listen("tcp", "127.0.0.1:0")
		if err != nil {
			return
		}
		_, t35 := modbus.VerifSerialTimings(rate)
		type obs struct{ gap time.Duration }
		ch := make(chan []time.Duration, 1)
		go func() {
			c, err := ln.Accept()
			if err != nil {
				ch <- nil
				return
			}
			defer c.Close()
			var gaps []time.Duration
			var lastReplyEnd time.Time
			buf := make([]byte, 300)
			for i := 0; i < 6; i++ {
				c.SetReadDeadline(time.Now().Add(2 * time.Second))
				n, err := c.Read(buf)
				if err != nil {
					break
				}
				now := time.Now()
				if !lastReplyEnd.IsZero() {
					gaps = append(gaps, now.Sub(lastReplyEnd))
				}
				w := parseWire(true, buf[:n])
				c.Write(rtuFrame(w.unit, w.fc, validReplyPayload(NewRng(1), w.fc, w.payload)))
				lastReplyEnd = time.Now()
			}
			ch <- gaps
		}()
		mc, err := modbus.NewClient(&modbus.ClientConfiguration{URL: "rtuovertcp://" + ln.Addr().String(), Speed: rate, Timeout: time.Second, Logger: quietLog})
		if err != nil || mc.Open() != nil {
			ln.Close()
			return
		}
		op := &Op{Name: "ReadRegisters", Addr: 1, Qty: 2}
		for i := 0; i < 6; i++ {
			op.Exec(mc)
		}
		mc.Close()
		gaps := <-ch
		ln.Close()
		minGap := time.Hour
		for _, g := range gaps {
			if g < minGap {
				minGap = g
			}
		}
		res.Note(fmt.Sprintf("observed silence at %d bps: min gap %v over %d back-to-back requests (t3.5 = %v)", rate, minGap, len(gaps), t35))
		res.Eval(fmt.Sprintf("silence/%d", rate), true, fmt.Sprintf("rate %d min gap %v t35 %v", rate, minGap, t35))
		// the peer's clock starts after its own write returned, the client's after its read returned: allow 300us of skew
		if len(gaps) > 0 && minGap+300*time.Microsecond < t35 {
			res.Add(Finding{Kind: "property", Check: "silence", Line: fmt.Sprintf("rtuovertcp back-to-back at %d bps", rate), Impl: fmt.Sprint(minGap), Expect: ">= " + fmt.Sprint(t35),
				Note: "a request started earlier than the inter-frame delay after the previous reply"})
		}
	}
}
