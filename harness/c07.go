package main

import (
	"fmt"
	"net"
	"strings"
	"sync"
	"time"

	"github.com/simonvetter/modbus"
)

// peer behaviours for C07: what the peer does once it has seen the request
type peerBehaviour struct {
	name string
	run  func(w wireReq, feed func([]byte), stop <-chan struct{}, T time.Duration)
}

func foreignFrame(w wireReq, i int) []byte {
	pl := validReplyPayload(NewRng(uint64(i)), w.fc, w.payload)
	if w.rtu {
		// a frame for another unit with a valid CRC
		return rtuFrame(w.unit+1, w.fc, pl)
	}
	if i%2 == 0 {
		return mbapFrame(w.txn-uint16(1+i%50), 0, w.unit, w.fc, pl)
	}
	return mbapFrame(w.txn, uint16(1+i), w.unit, w.fc, pl)
}

func c07Behaviours(r *Rng) []peerBehaviour {
	bs := []peerBehaviour{
		{"silence", func(w wireReq, feed func([]byte), stop <-chan struct{}, T time.Duration) {}},
		{"trickle", func(w wireReq, feed func([]byte), stop <-chan struct{}, T time.Duration) {
			good := w.frame(w.unit, w.fc, validReplyPayload(NewRng(1), w.fc, append(w.payload[:2:2], 0, 100))) // a long reply, one byte every T/4
			for i := 0; i < len(good) && i < 40; i++ {
				select {
				case <-stop:
					return
				case <-time.After(T / 4):
				}
				feed(good[i : i+1])
			}
		}},
		{"flood-foreign", func(w wireReq, feed func([]byte), stop <-chan struct{}, T time.Duration) {
			for i := 0; i < 4000; i++ {
				select {
				case <-stop:
					return
				default:
				}
				feed(foreignFrame(w, i))
				time.Sleep(T / 200)
			}
		}},
		{"garbage", func(w wireReq, feed func([]byte), stop <-chan struct{}, T time.Duration) {
			g := NewRng(99)
			for i := 0; i < 4000; i++ {
				select {
				case <-stop:
					return
				default:
				}
				feed(g.Bytes(1 + g.Intn(20)))
				time.Sleep(T / 100)
			}
		}},
		{"late-valid", func(w wireReq, feed func([]byte), stop <-chan struct{}, T time.Duration) {
			time.Sleep(T / 2)
			feed(w.frame(w.unit, w.fc, validReplyPayload(NewRng(2), w.fc, w.payload)))
		}},
		{"foreign-then-late-valid", func(w wireReq, feed func([]byte), stop <-chan struct{}, T time.Duration) {
			for i := 0; i < 5; i++ {
				feed(foreignFrame(w, i))
				time.Sleep(T / 20)
			}
			feed(w.frame(w.unit, w.fc, validReplyPayload(NewRng(2), w.fc, w.payload)))
		}},
	}
	// stall after k bytes, for every k of a short valid reply
	for k := 1; k <= 10; k++ {
		k := k
		bs = append(bs, peerBehaviour{fmt.Sprintf("stall-after-%d", k), func(w wireReq, feed func([]byte), stop <-chan struct{}, T time.Duration) {
			good := w.frame(w.unit, w.fc, validReplyPayload(NewRng(3), w.fc, w.payload))
			if k < len(good) {
				feed(good[:k])
			} else {
				feed(good[:len(good)-1])
			}
		}})
	}
	return bs
}

// execBounded runs one client call with a watchdog: a call that has not returned after `limit` is
// reported as "hung" (its goroutine, which holds the client's mutex, is abandoned; the caller must
// not Close the client then).
func execBounded(op *Op, mc *modbus.ModbusClient, limit time.Duration) (out string, hung bool) {
	done := make(chan string, 1)
	go func() { done <- op.Exec(mc) }()
	select {
	case out = <-done:
		return out, false
	case <-time.After(limit):
		return "hung", true
	}
}

func hangLimit(T time.Duration, kind string, speed uint) time.Duration {
	l := T + 3*time.Second
	if isRTUKind(kind) {
		l += rtuMarginFor(speed, 8)
	}
	return l
}

func rtuMarginFor(speed uint, reqLen int) time.Duration {
	t1, t35 := modbus.VerifSerialTimings(speed)
	return 2*t35 + time.Duration(reqLen)*t1 + 256*t1 + 500*time.Microsecond
}

func init() {
	checks["C07"] = func(tier string, seed uint64, res *Result) error {
		res.Rule = "wall-clock runs with a real timeout T (60 ms) on real clients over an in-memory connection with real deadlines (tcp, tcp+tls wrapper, rtuovertcp, rtu) and over real loopback sockets (tcp, udp, rtuovertcp, rtuoverudp via Open()): peers that stay silent, stall after k bytes (every k), trickle one byte every T/4, flood well-formed foreign frames, send garbage, or answer validly after T/2 (alone or behind foreign frames); the call must return within T + margin (margin: scheduling slack; RTU: + request time + 2 t3.5 + 256 character times + 0.5 ms), silence must be ErrRequestTimedOut, a valid reply before T must be returned; the deadlines are armed before the reads begin (MBAP: one; RTU: before the write and again after the emulated transmission, + one in the flush) and never inside the read loop, compared with the Lean I/O trace model; low baud rate (1200 bps) with the timeout below and above the emulated transmission time; distinct = (connection, scheme, peer behaviour, outcome)"
		T := 60 * time.Millisecond
		slack := 45 * time.Millisecond
		r := NewRng(seed)
		type job struct {
			kind  string
			real  bool
			b     peerBehaviour
			op    *Op
			speed uint          // 0: 115200
			T     time.Duration // 0: the default T
		}
		var jobs []job
		for _, kind := range []string{"tcp", "tcp+tls", "rtuovertcp", "rtu"} {
			for _, b := range c07Behaviours(r) {
				jobs = append(jobs, job{kind: kind, b: b})
			}
		}
		for _, kind := range []string{"tcp", "udp", "rtuovertcp", "rtuoverudp"} {
			for _, b := range c07Behaviours(r) {
				if strings.HasPrefix(b.name, "stall-after-") && b.name != "stall-after-3" && b.name != "stall-after-8" {
					continue
				}
				jobs = append(jobs, job{kind: kind, real: true, b: b})
			}
		}
		// rtu:// through the REAL serial port wrapper (deadline emulation) over a fake serial.Port
		for _, b := range c07Behaviours(r) {
			if b.name == "flood-foreign" {
				continue
			}
			jobs = append(jobs, job{kind: "rtu-serial", b: b})
		}
		// "a valid reply that arrives before the timeout is never turned into a timeout", for the
		// largest replies each transport can carry (MBAP frames of 255..260 bytes, RTU of 250..256)
		var late peerBehaviour
		for _, b := range c07Behaviours(r) {
			if b.name == "late-valid" {
				late = b
			}
		}
		bigOps := []*Op{
			{Name: "ReadRegisters", Addr: 7, Qty: 125}, {Name: "ReadRegisters", Addr: 7, Qty: 124}, {Name: "ReadRegisters", Addr: 7, Qty: 123},
			{Name: "ReadRegisters", Addr: 7, Qty: 122}, {Name: "ReadCoils", Addr: 9, Qty: 2000}, {Name: "ReadCoils", Addr: 9, Qty: 1985},
			{Name: "ReadCoils", Addr: 9, Qty: 1977}, {Name: "ReadDiscreteInputs", Addr: 9, Qty: 1969},
		}
		for _, kind := range []string{"tcp", "udp", "rtuovertcp", "rtuoverudp"} {
			for _, op := range bigOps {
				jobs = append(jobs, job{kind: kind, real: true, b: late, op: op})
			}
		}
		for _, kind := range []string{"tcp", "tcp+tls", "rtuovertcp", "rtu", "rtu-serial"} {
			for _, op := range bigOps[:3] {
				jobs = append(jobs, job{kind: kind, b: late, op: op})
			}
		}
		// low baud rates: the emulated transmission time of the request (n character times + t3.5)
		// is comparable to the timeout. A reply that is available at once must be returned when the
		// timeout exceeds that time comfortably (1200 bps, 8-byte request: 105 ms < 400 ms) AND when
		// it does not (100 ms): "a valid reply that arrives before the timeout is never turned into
		// a timeout".
		immediate := peerBehaviour{"immediate-valid", func(w wireReq, feed func([]byte), stop <-chan struct{}, T time.Duration) {
			feed(w.frame(w.unit, w.fc, validReplyPayload(NewRng(2), w.fc, w.payload)))
		}}
		for _, T2 := range []time.Duration{400 * time.Millisecond, 100 * time.Millisecond} {
			for _, kind := range []string{"rtuovertcp", "rtu", "rtu-serial"} {
				jobs = append(jobs, job{kind: kind, b: immediate, speed: 1200, T: T2})
			}
			for _, kind := range []string{"rtuovertcp", "rtuoverudp"} {
				jobs = append(jobs, job{kind: kind, real: true, b: immediate, speed: 1200, T: T2})
			}
		}
		// the peer has stopped draining: the request write itself blocks; the deadline must bound it
		// on every transport (in-memory connection whose writes block until the WRITE deadline)
		writeBlocked := peerBehaviour{"write-blocked", func(w wireReq, feed func([]byte), stop <-chan struct{}, T time.Duration) {}}
		for _, kind := range []string{"tcp", "tcp+tls", "rtuovertcp", "rtu"} {
			jobs = append(jobs, job{kind: kind, b: writeBlocked})
		}
		// a long valid reply trickled faster than the serial port's 10 ms poll, past the deadline
		fastTrickle := peerBehaviour{"fast-trickle", func(w wireReq, feed func([]byte), stop <-chan struct{}, T time.Duration) {
			good := w.frame(w.unit, w.fc, validReplyPayload(NewRng(1), w.fc, append(w.payload[:2:2], 0, 125)))
			for i := 0; i < len(good); i++ {
				select {
				case <-stop:
					return
				case <-time.After(2 * time.Millisecond):
				}
				feed(good[i : i+1])
			}
		}}
		for _, kind := range []string{"rtu-serial", "rtu", "rtuovertcp", "tcp"} {
			jobs = append(jobs, job{kind: kind, b: fastTrickle, op: &Op{Name: "ReadRegisters", Addr: 3, Qty: 125}})
		}
		// the peer takes the request slowly (the write lasts 0.8 T) and then stays silent: one timeout
		// for the whole exchange, not one for the write and another for the read
		slowWrite := peerBehaviour{"slow-write-then-silence", func(w wireReq, feed func([]byte), stop <-chan struct{}, T time.Duration) {}}
		for _, kind := range []string{"tcp", "tcp+tls"} {
			jobs = append(jobs, job{kind: kind, b: slowWrite, T: 300 * time.Millisecond})
		}
		var wg sync.WaitGroup
		sem := make(chan struct{}, 24)
		for ji, j := range jobs {
			wg.Add(1)
			sem <- struct{}{}
			go func(ji int, j job) {
				defer wg.Done()
				defer func() { <-sem }()
				speed := uint(115200)
				if j.speed != 0 {
					speed = j.speed
				}
				T := T
				if j.T != 0 {
					T = j.T
				}
				op := j.op
				if op == nil {
					op = &Op{Name: "ReadRegisters", Addr: uint16(ji), Qty: 2}
				}
				var out string
				var elapsed time.Duration
				var deadlines int
				// when the peer last handed bytes over (the valid reply, for the *-valid behaviours)
				var feedMu sync.Mutex
				var lastFeed, callStart time.Time
				mark := func() { feedMu.Lock(); lastFeed = time.Now(); feedMu.Unlock() }
				attempt := func() {
					feedMu.Lock()
					lastFeed, callStart = time.Time{}, time.Now()
					feedMu.Unlock()
					if j.real {
						out, elapsed = realSocketRun(j.kind, j.b, op, T, speed, mark)
						deadlines = -1
						return
					}
					if j.kind == "rtu-serial" {
						port := &FakeSerialPort{}
						mc, err := modbus.VerifNewClientOnSerialPort(&modbus.ClientConfiguration{URL: "rtu:///dev/fake", Speed: speed, Timeout: T, Logger: quietLog}, port)
						if err != nil {
							out = "setup:" + err.Error()
							return
						}
						stop := make(chan struct{})
						port.OnWrite = func(b []byte, at time.Time) {
							w := parseWire(true, b)
							if w.ok {
								go j.b.run(w, func(x []byte) { mark(); port.Feed(x) }, stop, T)
							}
						}
						t0 := time.Now()
						var hung bool
						out, hung = execBounded(op, mc, hangLimit(T, "rtu", speed))
						elapsed = time.Since(t0)
						close(stop)
						deadlines = -1
						if !hung {
							mc.Close()
						}
						return
					}
					conn := &TimedConn{BlockWrites: j.b.name == "write-blocked"}
					if j.b.name == "slow-write-then-silence" {
						conn.WriteDelay = T * 8 / 10
					}
					conf := &modbus.ClientConfiguration{URL: j.kind + "://timed", Speed: speed, Timeout: T, Logger: quietLog}
					if j.kind == "tcp+tls" {
						conf.TLSClientCert, conf.TLSRootCAs = nil, nil
					}
					mc, _, err := newTimedClient(j.kind, conn, T, speed)
					if err != nil {
						out = "setup:" + err.Error()
						return
					}
					stop := make(chan struct{})
					conn.OnWrite = func(b []byte, at time.Time) {
						w := parseWire(isRTUKind(j.kind), b)
						if w.ok {
							go j.b.run(w, func(x []byte) { mark(); conn.Feed(x) }, stop, T)
						}
					}
					base := len(conn.Deadlines)
					t0 := time.Now()
					var hung bool
					out, hung = execBounded(op, mc, hangLimit(T, j.kind, speed))
					elapsed = time.Since(t0)
					close(stop)
					deadlines = len(conn.Deadlines) - base
					if !hung {
						mc.Close()
					} else {
						deadlines = -1
					}
				}
				margin := slack
				if isRTUKind(j.kind) {
					margin += rtuMarginFor(speed, 8)
				}
				if j.kind == "rtu-serial" {
					margin += 12 * time.Millisecond // the serial read granularity (10 ms) documented in serial.go
				}
				// scheduling jitter of this machine right now (oversleep of a 5 ms sleep): a loaded
				// machine widens the margin instead of raising an alarm
				jitter := time.Duration(0)
				for k := 0; k < 3; k++ {
					t := time.Now()
					time.Sleep(5 * time.Millisecond)
					if o := time.Since(t) - 5*time.Millisecond; o > jitter {
						jitter = o
					}
				}
				margin += 4 * jitter
				lateFeed := false
				for try := 0; try < 3; try++ { // a bound is only reported when three consecutive runs exceed it
					attempt()
					// a "valid reply before the timeout" run only counts when the peer really handed the
					// reply over at least 15 ms before the deadline (an overslept peer proves nothing)
					feedMu.Lock()
					lateFeed = strings.HasSuffix(j.b.name, "-valid") && !strings.HasPrefix(out, "ok:") &&
						(lastFeed.IsZero() || lastFeed.After(callStart.Add(T-15*time.Millisecond)))
					feedMu.Unlock()
					if lateFeed {
						continue
					}
					if elapsed <= T+margin || out == "hung" {
						break
					}
				}
				label := fmt.Sprintf("%s/%s/%v", j.kind, j.b.name, j.real)
				if j.op != nil {
					label += fmt.Sprintf("/%s:%d", j.op.Name, j.op.Qty)
				}
				if j.speed != 0 {
					label += fmt.Sprintf("/%dbps/T=%v", j.speed, T)
				}
				res.Eval(label+"/"+out[:min(len(out), 10)], true, fmt.Sprintf("%s real=%v peer=%s => %s in %v (T=%v, margin=%v, deadlines armed=%d)", j.kind, j.real, j.b.name, shorten(out, 40), elapsed, T, margin, deadlines))
				res.Count("peer:" + j.b.name)
				if elapsed > T+margin {
					res.Add(Finding{Kind: "property", Check: "timeout-bound", Line: fmt.Sprintf("%s real=%v ReadRegisters, peer: %s, timeout %v", j.kind, j.real, j.b.name, T), Impl: fmt.Sprintf("returned %s after %v", shorten(out, 40), elapsed), Expect: fmt.Sprintf("return within %v", T+margin),
						Note: "the call did not complete within the timeout plus margin (three consecutive runs)"})
				}
				switch {
				case j.b.name == "silence" && out != "err:ErrRequestTimedOut":
					res.Add(Finding{Kind: "property", Check: "silence-timeout", Line: label, Impl: out, Expect: "err:ErrRequestTimedOut"})
				case lateFeed:
					res.Note(fmt.Sprintf("C07 %s: the peer handed its reply over too late in three attempts (machine overloaded?); no verdict", label))
				case strings.HasSuffix(j.b.name, "-valid") && !strings.HasPrefix(out, "ok:"):
					if !(isRTUKind(j.kind) && j.b.name == "foreign-then-late-valid") { // RTU has no ids: a frame from another unit ends the exchange
						note := "a valid reply that arrived before the timeout was not returned"
						t1, t35 := modbus.VerifSerialTimings(speed)
						if isRTUKind(j.kind) && T < 8*t1+2*t35 {
							note = fmt.Sprintf("F9-class: the timeout (%v) is shorter than the emulated transmission time of the request plus inter-frame delays (%v at %d bps): the deadline armed before the delays has expired when the first read starts; ", T, 8*t1+2*t35, speed) + note
						}
						res.Add(Finding{Kind: "property", Check: "spurious-timeout", Line: label, Impl: out, Expect: "ok", Note: note})
					}
				case !strings.HasSuffix(j.b.name, "-valid") && strings.HasPrefix(out, "ok:"):
					res.Add(Finding{Kind: "property", Check: "bogus-success", Line: label, Impl: out, Expect: "an error"})
				}
				if !j.real && deadlines >= 0 && j.b.name != "write-blocked" {
					minD, maxD := 1, 1
					if isRTUKind(j.kind) {
						minD, maxD = 2, 3 // before the write, after the emulated transmission, + one in the flush
					}
					if deadlines < minD || deadlines > maxD {
						res.Add(Finding{Kind: "correspondence", Check: "deadline-count", Line: label, Impl: fmt.Sprintf("%d SetDeadline calls during one exchange", deadlines), Expect: fmt.Sprintf("%d..%d (absolute deadlines armed before the reads begin, never re-armed inside the read loop)", minD, maxD)})
					}
				}
			}(ji, j)
		}
		wg.Wait()
		return ioTraceCorrespondence(tier, seed, res)
	}
}

// newTimedClient attaches a real client of the given scheme to a TimedConn.
func newTimedClient(kind string, conn *TimedConn, T time.Duration, speed uint) (*modbus.ModbusClient, *TimedConn, error) {
	conf := &modbus.ClientConfiguration{URL: kind + "://timed", Speed: speed, Timeout: T, Logger: quietLog}
	if kind == "tcp+tls" {
		ca, err := mint(certSpec{cn: "x", isCA: true})
		if err != nil {
			return nil, nil, err
		}
		conf.TLSClientCert, conf.TLSRootCAs = ca.tlsCert(), poolOf(ca)
	}
	mc, err := modbus.VerifNewClientOnConn(conf, conn)
	return mc, conn, err
}

// realSocketRun: the real Open() over loopback sockets against a scripted peer.
func realSocketRun(kind string, b peerBehaviour, op *Op, T time.Duration, speed uint, mark func()) (string, time.Duration) {
	rtu := isRTUKind(kind)
	stop := make(chan struct{})
	defer close(stop)
	if strings.HasSuffix(kind, "udp") {
		pc, err := net.ListenUDP("udp", &net.UDPAddr{IP: net.IPv4(127, 0, 0, 1)})
		if err != nil {
			return "setup:" + err.Error(), 0
		}
		defer pc.Close()
		go func() {
			buf := make([]byte, 512)
			pc.SetReadDeadline(time.Now().Add(2 * time.Second))
			n, from, err := pc.ReadFromUDP(buf)
			if err != nil {
				return
			}
			w := parseWire(rtu, buf[:n])
			if w.ok {
				b.run(w, func(x []byte) { mark(); pc.WriteToUDP(x, from) }, stop, T)
			}
		}()
		mc, err := modbus.NewClient(&modbus.ClientConfiguration{URL: kind + "://" + pc.LocalAddr().String(), Speed: speed, Timeout: T, Logger: quietLog})
		if err != nil || mc.Open() != nil {
			return "setup-failed", 0
		}
		t0 := time.Now()
		out, hung := execBounded(op, mc, hangLimit(T, kind, speed))
		if !hung {
			mc.Close()
		}
		return out, time.Since(t0)
	}
	ln, err := net.Listen("tcp", "127.0.0.1:0")
	if err != nil {
		return "setup:" + err.Error(), 0
	}
	defer ln.Close()
	go func() {
		c, err := ln.Accept()
		if err != nil {
			return
		}
		defer c.Close()
		buf := make([]byte, 512)
		c.SetReadDeadline(time.Now().Add(2 * time.Second))
		n, err := c.Read(buf)
		if err != nil {
			return
		}
		w := parseWire(rtu, buf[:n])
		if w.ok {
			b.run(w, func(x []byte) { mark(); c.Write(x) }, stop, T)
		}
		select {
		case <-stop:
		case <-time.After(time.Second):
		}
	}()
	mc, err := modbus.NewClient(&modbus.ClientConfiguration{URL: kind + "://" + ln.Addr().String(), Speed: speed, Timeout: T, Logger: quietLog})
	if err != nil || mc.Open() != nil {
		return "setup-failed", 0
	}
	t0 := time.Now()
	out, hung := execBounded(op, mc, hangLimit(T, kind, speed))
	if !hung {
		mc.Close()
	}
	return out, time.Since(t0)
}

// canonDeadline rounds a measured relative deadline to the value the code asked for.
func canonTrace(tr []string, T time.Duration) string {
	var out []string
	for _, t := range tr {
		if strings.HasPrefix(t, "sd:") {
			var ns int64
			fmt.Sscanf(t, "sd:%d", &ns)
			d := time.Duration(ns)
			switch {
			case d > T-5*time.Millisecond && d <= T:
				t = fmt.Sprintf("sd:%d", int64(T))
			case d > 100*time.Microsecond && d <= 500*time.Microsecond:
				t = "sd:500000"
			}
		}
		if t == "close" || strings.HasSuffix(t, "=closed") {
			continue
		}
		out = append(out, t)
	}
	return strings.Join(out, " ")
}

// ioTraceCorrespondence: the sequence of SetDeadline / Write / Read calls the real client makes on
// a recording connection (whole stream in one chunk) vs the Lean I/O trace model (sleeps removed).
func ioTraceCorrespondence(tier string, seed uint64, res *Result) error {
	T := 200 * time.Millisecond
	var cs []kv
	for wi, kind := range []string{"tcp", "tcp+tls", "rtuovertcp", "rtu"} {
		r := NewRng(seed).Fork(uint64(7000 + wi))
		s, err := newSession(kind)
		if err != nil {
			return err
		}
		for i := 0; i < scale(tier, 250, 4000); i++ {
			op := genOp(r, false)
			ending := []string{"timeout", "timeout", "eof", "reset"}[r.Intn(4)]
			var stream []byte
			s.conn.TakeTrace()
			line, impl, req := s.exchange(op, ending, true, func(w wireReq) [][]byte {
				stream, _ = mutateReply(r, w)
				if len(stream) == 0 {
					return nil
				}
				return [][]byte{stream}
			})
			tr := canonTrace(s.conn.TakeTrace(), T)
			if field(impl, "w") == "none" {
				if tr != "" {
					res.Add(Finding{Kind: "property", Check: "io-on-rejection", Line: line, Impl: tr, Expect: "no i/o at all for a locally rejected call"})
				}
				continue
			}
			L := len(unhx(field(impl, "w")))
			var ml string
			if isRTUKind(kind) {
				ml = fmt.Sprintf("iotrace rtu %d %d %d %s %s", int64(T), 10000000, L, ending, hx(stream))
			} else {
				ml = fmt.Sprintf("iotrace mbap %d %d %d %s", int64(T), L, req.txn, hx(stream))
			}
			cs = append(cs, kv{ml, tr, "trace/" + kind + "/" + fmt.Sprint(strings.Count(tr, "sd:"), strings.Count(tr, " r:"), strings.Count(tr, " re:"))})
		}
	}
	lines := make([]string, len(cs))
	for i := range cs {
		lines[i] = cs[i].line
	}
	outs, err := runModel(lines)
	if err != nil {
		return err
	}
	for i, c := range cs {
		// drop the sleeps (not visible on the connection) from the model trace
		var keep []string
		for _, t := range strings.Fields(outs[i]) {
			if !strings.HasPrefix(t, "sl:") {
				keep = append(keep, t)
			}
		}
		want := strings.Join(keep, " ")
		res.Eval(c.key, true, c.line+" => "+c.impl)
		if want != c.impl {
			res.Add(Finding{Kind: "correspondence", Check: "iotrace", Line: c.line, Impl: c.impl, Expect: want})
		}
	}
	return nil
}
