package main

import (
	"crypto/tls"
	"crypto/x509"
	"fmt"
	"io"
	"net"
	"sync/atomic"
	"time"

	"github.com/simonvetter/modbus"
)

type countingHandler struct{ calls int32 }

func (h *countingHandler) HandleCoils(r *modbus.CoilsRequest) ([]bool, error) {
	atomic.AddInt32(&h.calls, 1)
	return make([]bool, r.Quantity), nil
}
func (h *countingHandler) HandleDiscreteInputs(r *modbus.DiscreteInputsRequest) ([]bool, error) {
	atomic.AddInt32(&h.calls, 1)
	return make([]bool, r.Quantity), nil
}
func (h *countingHandler) HandleHoldingRegisters(r *modbus.HoldingRegistersRequest) ([]uint16, error) {
	atomic.AddInt32(&h.calls, 1)
	return make([]uint16, r.Quantity), nil
}
func (h *countingHandler) HandleInputRegisters(r *modbus.InputRegistersRequest) ([]uint16, error) {
	atomic.AddInt32(&h.calls, 1)
	return make([]uint16, r.Quantity), nil
}

var tlsVersions = map[int]uint16{10: tls.VersionTLS10, 11: tls.VersionTLS11, 12: tls.VersionTLS12, 13: tls.VersionTLS13}
var credNames = []string{"none", "selfSigned", "foreignCA", "expired", "notYetValid", "wrongKeyUsage", "wrongHost", "pinnedLeaf", "validChain"}

type pki struct {
	ca, foreign *minted
	pinned      *minted
}

// mintCred returns the certificate a peer presents for a credential class (nil for "none").
// forServer: the peer is a server (needs ServerAuth EKU and the right host name).
func (p *pki) mintCred(name string, forServer bool) *minted {
	good := []x509.ExtKeyUsage{x509.ExtKeyUsageClientAuth}
	bad := []x509.ExtKeyUsage{x509.ExtKeyUsageServerAuth}
	if forServer {
		good, bad = bad, good
	}
	ip := []net.IP{net.IPv4(127, 0, 0, 1)}
	var m *minted
	switch name {
	case "none":
		return nil
	case "selfSigned":
		m, _ = mint(certSpec{cn: "self", extKeyUse: good, ips: ip})
	case "foreignCA":
		m, _ = mint(certSpec{cn: "foreign-leaf", parent: p.foreign, extKeyUse: good, ips: ip})
	case "expired":
		m, _ = mint(certSpec{cn: "expired", parent: p.ca, extKeyUse: good, ips: ip, notBefore: time.Now().Add(-48 * time.Hour), notAfter: time.Now().Add(-24 * time.Hour)})
	case "notYetValid":
		m, _ = mint(certSpec{cn: "future", parent: p.ca, extKeyUse: good, ips: ip, notBefore: time.Now().Add(24 * time.Hour), notAfter: time.Now().Add(48 * time.Hour)})
	case "wrongKeyUsage":
		m, _ = mint(certSpec{cn: "wrong-eku", parent: p.ca, extKeyUse: bad, ips: ip})
	case "wrongHost":
		m, _ = mint(certSpec{cn: "other-host", parent: p.ca, extKeyUse: good, ips: []net.IP{net.IPv4(10, 9, 8, 7)}, dnsNames: []string{"elsewhere.example"}})
	case "pinnedLeaf":
		return p.pinned
	case "validChain":
		m, _ = mint(certSpec{cn: "valid", parent: p.ca, extKeyUse: good, ips: ip})
	}
	return m
}

func init() {
	checks["C14"] = func(tier string, seed uint64, res *Result) error {
		res.Rule = "real handshake matrix, both directions, certificates minted in-process: SERVER side: a real tcp+tls server (client CAs = {CA, one pinned self-signed leaf}) against raw peers speaking plain text or TLS 1.0/1.1/1.2/1.3 with no / self-signed / foreign-CA / expired / not-yet-valid / wrong-key-usage / pinned-leaf / valid-chain client certificates, each sending one request after the handshake attempt: handler invocations counted; CLIENT side: the real tcp+tls client (roots = {CA, pinned server leaf}) against fake TLS servers (same credential classes incl. wrong host name, each limited to one protocol version) and a plain-text server: bytes received after the handshake counted; every cell compared with the decision table of the Lean model (T-tls); constructors without credentials; distinct = (side, version, credential class)"
		ca, err := mint(certSpec{cn: "ca", isCA: true})
		if err != nil {
			return err
		}
		foreign, _ := mint(certSpec{cn: "foreign-ca", isCA: true})
		var cs []kv
		for _, side := range []string{"server", "client"} {
			p := &pki{ca: ca, foreign: foreign}
			forServer := side == "client" // the credential under test belongs to the peer
			eku := []x509.ExtKeyUsage{x509.ExtKeyUsageClientAuth}
			if forServer {
				eku = []x509.ExtKeyUsage{x509.ExtKeyUsageServerAuth}
			}
			p.pinned, _ = mint(certSpec{cn: "pinned", extKeyUse: eku, ips: []net.IP{net.IPv4(127, 0, 0, 1)}})
			for _, ver := range []int{0, 10, 11, 12, 13} {
				for _, cred := range credNames {
					if ver == 0 && cred != "none" {
						continue
					}
					if side == "server" && cred == "wrongHost" {
						continue // host names are not checked for client certificates
					}
					if side == "client" && cred == "none" && ver != 0 {
						continue // a TLS server always presents a certificate
					}
					var served bool
					var detail string
					if side == "server" {
						served, detail = serverCell(p, ver, cred)
					} else {
						served, detail = clientCell(p, ver, cred)
					}
					impl := "refused"
					if served {
						impl = "served"
					}
					line := fmt.Sprintf("tlsmatrix %s %d %s", side, ver, cred)
					res.Count(side + ":" + impl)
					cs = append(cs, kv{line, impl, fmt.Sprintf("%s/%d/%s", side, ver, cred)})
					_ = detail
				}
			}
		}
		// model table = property oracle here (T-tls is the property's own decision table)
		lines := make([]string, len(cs))
		for i := range cs {
			lines[i] = cs[i].line
		}
		outs, err := runModel(lines)
		if err != nil {
			return err
		}
		for i, c := range cs {
			res.Eval(c.key, true, c.line+" => "+c.impl)
			if outs[i] != c.impl {
				note := "a peer that must be refused was served (handler invoked / request sent)"
				if c.impl == "refused" {
					note = "a correctly authenticated peer was not served"
				}
				res.Add(Finding{Kind: "property", Check: "tls-matrix", Line: c.line, Impl: c.impl, Expect: outs[i], Note: note})
			}
		}
		crossServerResumption(res)
		clientChainDoesNotWidenTrust(res)
		// constructors refuse tcp+tls without credentials
		some, _ := mint(certSpec{cn: "x", parent: ca})
		for _, cfg := range []struct {
			cert, pool bool
		}{{false, false}, {true, false}, {false, true}} {
			cc := &modbus.ClientConfiguration{URL: "tcp+tls://127.0.0.1:1", Logger: quietLog}
			sc := &modbus.ServerConfiguration{URL: "tcp+tls://127.0.0.1:0", Logger: quietLog}
			if cfg.cert {
				cc.TLSClientCert, sc.TLSServerCert = some.tlsCert(), some.tlsCert()
			}
			if cfg.pool {
				cc.TLSRootCAs, sc.TLSClientCAs = poolOf(ca), poolOf(ca)
			}
			_, e1 := modbus.NewClient(cc)
			_, e2 := modbus.NewServer(sc, &countingHandler{})
			res.Eval(fmt.Sprintf("ctor/%v/%v", cfg.cert, cfg.pool), true, fmt.Sprintf("constructors cert=%v pool=%v => %v / %v", cfg.cert, cfg.pool, e1, e2))
			if e1 != modbus.ErrConfigurationError || e2 != modbus.ErrConfigurationError {
				res.Add(Finding{Kind: "property", Check: "tls-constructors", Line: fmt.Sprintf("tcp+tls cert=%v pool=%v", cfg.cert, cfg.pool), Impl: fmt.Sprint(e1, " / ", e2), Expect: "ErrConfigurationError for both"})
			}
		}
		return nil
	}
}

var req03 = []byte{0, 1, 0, 0, 0, 6, 1, 3, 0, 0, 0, 1}

// serverCell: one peer against the real tcp+tls server; served = a handler was invoked.
func serverCell(p *pki, ver int, cred string) (bool, string) {
	srvCert, _ := mint(certSpec{cn: "server", parent: p.ca, ips: []net.IP{net.IPv4(127, 0, 0, 1)}, extKeyUse: []x509.ExtKeyUsage{x509.ExtKeyUsageServerAuth}})
	h := &countingHandler{}
	srv, err := modbus.NewServer(&modbus.ServerConfiguration{URL: "tcp+tls://127.0.0.1:0", Timeout: time.Second, TLSServerCert: srvCert.tlsCert(),
		TLSClientCAs: poolOf(p.ca, p.pinned), Logger: quietLog}, h)
	if err != nil || srv.Start() != nil {
		return false, "server did not start"
	}
	defer srv.Stop()
	addr := srv.VerifListenAddr().String()
	raw, err := net.DialTimeout("tcp", addr, time.Second)
	if err != nil {
		return false, err.Error()
	}
	defer raw.Close()
	raw.SetDeadline(time.Now().Add(1500 * time.Millisecond))
	detail := ""
	if ver == 0 {
		raw.Write(req03)
		buf := make([]byte, 64)
		raw.Read(buf)
	} else {
		cfg := &tls.Config{RootCAs: poolOf(p.ca), ServerName: "127.0.0.1", MinVersion: tlsVersions[ver], MaxVersion: tlsVersions[ver]}
		if m := p.mintCred(cred, false); m != nil {
			cfg.Certificates = []tls.Certificate{*m.tlsCert()}
		}
		tc := tls.Client(raw, cfg)
		if err := tc.Handshake(); err != nil {
			detail = "handshake: " + err.Error()
		} else {
			tc.Write(req03)
			buf := make([]byte, 64)
			if _, err := io.ReadAtLeast(tc, buf, 9); err != nil {
				detail = "read: " + err.Error()
			}
		}
	}
	time.Sleep(5 * time.Millisecond)
	return atomic.LoadInt32(&h.calls) > 0, detail
}

// clientCell: the real tcp+tls client against one fake server; served = the fake server received
// request bytes after the handshake (or, for the plain-text server, any Modbus request bytes at all
// that the client considered sent successfully: Open() returned nil).
func clientCell(p *pki, ver int, cred string) (bool, string) {
	ln, err := net.Listen("tcp", "127.0.0.1:0")
	if err != nil {
		return false, err.Error()
	}
	defer ln.Close()
	got := make(chan int, 1)
	go func() {
		c, err := ln.Accept()
		if err != nil {
			got <- 0
			return
		}
		defer c.Close()
		c.SetDeadline(time.Now().Add(1500 * time.Millisecond))
		if ver == 0 { // plain-text server: it just reads; whatever arrives is TLS handshake bytes, not a request
			buf := make([]byte, 512)
			c.Read(buf)
			got <- 0
			return
		}
		cfg := &tls.Config{MinVersion: tlsVersions[ver], MaxVersion: tlsVersions[ver], ClientAuth: tls.RequestClientCert}
		if m := p.mintCred(cred, true); m != nil {
			cfg.Certificates = []tls.Certificate{*m.tlsCert()}
		}
		tc := tls.Server(c, cfg)
		if err := tc.Handshake(); err != nil {
			got <- 0
			return
		}
		buf := make([]byte, 64)
		n, _ := io.ReadAtLeast(tc, buf, 12)
		if n >= 12 {
			tc.Write([]byte{buf[0], buf[1], 0, 0, 0, 5, buf[6], 3, 2, 0, 7})
		}
		got <- n
	}()
	cliCert, _ := mint(certSpec{cn: "client", parent: p.ca, extKeyUse: []x509.ExtKeyUsage{x509.ExtKeyUsageClientAuth}})
	mc, err := modbus.NewClient(&modbus.ClientConfiguration{URL: "tcp+tls://" + ln.Addr().String(), Timeout: 700 * time.Millisecond,
		TLSClientCert: cliCert.tlsCert(), TLSRootCAs: poolOf(p.ca, p.pinned), Logger: quietLog})
	if err != nil {
		return false, err.Error()
	}
	detail := ""
	if err := mc.Open(); err != nil {
		detail = "open: " + err.Error()
	} else {
		_, rerr := mc.ReadRegister(0, modbus.HOLDING_REGISTER)
		if rerr != nil {
			detail = "read: " + rerr.Error()
		}
		mc.Close()
	}
	n := <-got
	return n >= 12, detail
}

// crossServerResumption: two tcp+tls servers in one process trusting different client CAs. A peer
// with a certificate of CA-A completes an exchange with server A (collecting session tickets) and
// then offers them to server B, which trusts CA-B only: B must not serve it.
func crossServerResumption(res *Result) {
	caA, errA := mint(certSpec{cn: "ca-a", isCA: true})
	caB, errB := mint(certSpec{cn: "ca-b", isCA: true})
	if errA != nil || errB != nil {
		return
	}
	ip := []net.IP{net.IPv4(127, 0, 0, 1)}
	srvCert, _ := mint(certSpec{cn: "server", parent: caA, ips: ip, extKeyUse: []x509.ExtKeyUsage{x509.ExtKeyUsageServerAuth}})
	cliA, _ := mint(certSpec{cn: "client-a", parent: caA, extKeyUse: []x509.ExtKeyUsage{x509.ExtKeyUsageClientAuth}})
	hA, hB := &countingHandler{}, &countingHandler{}
	sA, e1 := modbus.NewServer(&modbus.ServerConfiguration{URL: "tcp+tls://127.0.0.1:0", Timeout: time.Second, TLSServerCert: srvCert.tlsCert(), TLSClientCAs: poolOf(caA), Logger: quietLog}, hA)
	sB, e2 := modbus.NewServer(&modbus.ServerConfiguration{URL: "tcp+tls://127.0.0.1:0", Timeout: time.Second, TLSServerCert: srvCert.tlsCert(), TLSClientCAs: poolOf(caB), Logger: quietLog}, hB)
	if e1 != nil || e2 != nil || sA.Start() != nil || sB.Start() != nil {
		return
	}
	defer sA.Stop()
	defer sB.Stop()
	for _, ver := range []int{12, 13} {
		cache := tls.NewLRUClientSessionCache(8)
		dial := func(addr string) string {
			raw, err := net.DialTimeout("tcp", addr, time.Second)
			if err != nil {
				return "dial: " + err.Error()
			}
			defer raw.Close()
			raw.SetDeadline(time.Now().Add(1500 * time.Millisecond))
			// one ServerName for both, so that the client offers the cached session
			tc := tls.Client(raw, &tls.Config{RootCAs: poolOf(caA), ServerName: "127.0.0.1", MinVersion: tlsVersions[ver], MaxVersion: tlsVersions[ver],
				Certificates: []tls.Certificate{*cliA.tlsCert()}, ClientSessionCache: cache})
			if err := tc.Handshake(); err != nil {
				return "handshake: " + err.Error()
			}
			tc.Write(req03)
			buf := make([]byte, 64)
			if _, err := io.ReadAtLeast(tc, buf, 9); err != nil {
				return "read: " + err.Error()
			}
			return "served"
		}
		a := dial(sA.VerifListenAddr().String())
		before := atomic.LoadInt32(&hB.calls)
		b := dial(sB.VerifListenAddr().String())
		time.Sleep(5 * time.Millisecond)
		line := fmt.Sprintf("TLS 1.%d: peer with a CA-A certificate visits server A (trusts CA-A), then offers the session to server B (trusts CA-B only)", ver-10)
		res.Eval(fmt.Sprintf("resumption/%d", ver), true, line+" => A: "+a+"; B: "+b)
		if a != "served" {
			res.Note("cross-server resumption: the visit to server A failed: " + a)
		}
		if b == "served" || atomic.LoadInt32(&hB.calls) > before {
			res.Add(Finding{Kind: "property", Check: "tls-matrix-server", Line: line, Impl: "server B served the peer (" + b + ")", Expect: "refused: the certificate does not verify against B's client CAs",
				Note: "a handler was invoked for a peer whose certificate does not verify against the configured client CAs"})
		}
	}
}

// clientChainDoesNotWidenTrust: the client's own key pair is configured as a chain (leaf + its
// issuing CA X); X is not among the configured roots; the dialled server holds a certificate
// issued by X. The client must refuse it.
func clientChainDoesNotWidenTrust(res *Result) {
	root, e1 := mint(certSpec{cn: "root", isCA: true})
	caX, e2 := mint(certSpec{cn: "ca-x", isCA: true})
	if e1 != nil || e2 != nil {
		return
	}
	ip := []net.IP{net.IPv4(127, 0, 0, 1)}
	srvX, _ := mint(certSpec{cn: "server-x", parent: caX, ips: ip, extKeyUse: []x509.ExtKeyUsage{x509.ExtKeyUsageServerAuth}})
	cliX, _ := mint(certSpec{cn: "client-x", parent: caX, extKeyUse: []x509.ExtKeyUsage{x509.ExtKeyUsageClientAuth}})
	for _, shape := range []string{"leaf-only", "leaf+issuing-ca"} {
		ln, err := net.Listen("tcp", "127.0.0.1:0")
		if err != nil {
			return
		}
		got := make(chan int, 1)
		go func() {
			c, err := ln.Accept()
			if err != nil {
				got <- 0
				return
			}
			defer c.Close()
			c.SetDeadline(time.Now().Add(1500 * time.Millisecond))
			tc := tls.Server(c, &tls.Config{Certificates: []tls.Certificate{*srvX.tlsCert()}, ClientAuth: tls.RequestClientCert, MinVersion: tls.VersionTLS12})
			if err := tc.Handshake(); err != nil {
				got <- 0
				return
			}
			buf := make([]byte, 64)
			n, _ := io.ReadAtLeast(tc, buf, 12)
			got <- n
		}()
		cert := cliX.tlsCert()
		if shape == "leaf+issuing-ca" {
			cert.Certificate = append(cert.Certificate, caX.der)
		}
		mc, err := modbus.NewClient(&modbus.ClientConfiguration{URL: "tcp+tls://" + ln.Addr().String(), Timeout: 700 * time.Millisecond, TLSClientCert: cert, TLSRootCAs: poolOf(root), Logger: quietLog})
		out := ""
		if err != nil {
			out = "newclient: " + err.Error()
		} else if err := mc.Open(); err != nil {
			out = "open refused"
		} else {
			mc.ReadRegister(0, modbus.HOLDING_REGISTER)
			mc.Close()
			out = "opened"
		}
		n := 0
		select {
		case n = <-got:
		case <-time.After(2 * time.Second):
		}
		ln.Close()
		line := "client key pair given as " + shape + " (issued by CA-X), roots = {root}; server certificate issued by CA-X"
		res.Eval("client-chain/"+shape, true, line+" => "+out)
		if n >= 12 || out == "opened" {
			res.Add(Finding{Kind: "property", Check: "tls-matrix-client", Line: line, Impl: fmt.Sprintf("%s; %d request bytes reached the server", out, n), Expect: "Open() refused, no request sent",
				Note: "the client sent a request to a server whose certificate does not verify against the configured roots"})
		}
	}
}
