package main

import (
	"fmt"
	"net"
	"os"
	"strings"
	"sync"
	"time"

	"github.com/simonvetter/modbus"
)

// Connection histories with Close / Open as steps (Lean: Reconnect.steps): a REAL client over real
// loopback sockets (Open() dials, Close() closes) against a scripted peer. Each step is one of
//   call  — the peer answers the request with the planned bytes and then stays silent (timeout)
//           or closes the connection (eof);
//   close — mc.Close();
//   open  — mc.Open() against the listening peer, or against a port nobody listens on (fail).
// What every step returned, and every request frame the peer saw (transaction ids restart after
// Open), is compared with the model. Property oracles: a cut reply is an error; the first call
// after Close+Open with a complete valid reply succeeds, whatever happened before.

type reconnPeer struct {
	kind string
	rtu  bool
	udp  bool
	ln   net.Listener
	pc   *net.UDPConn
	addr string

	mu      sync.Mutex
	conn    net.Conn
	plan    func(w wireReq) (arrivals []byte, eof bool)
	gotReq  []byte
	gotArr  []byte
	early   []byte
	served  chan struct{}
	accepts int
	stopped bool
}

func newReconnPeer(kind string) (*reconnPeer, error) {
	p := &reconnPeer{kind: kind, rtu: isRTUKind(kind), udp: strings.HasSuffix(kind, "udp")}
	if p.udp {
		pc, err := net.ListenUDP("udp", &net.UDPAddr{IP: net.IPv4(127, 0, 0, 1)})
		if err != nil {
			return nil, err
		}
		p.pc, p.addr = pc, pc.LocalAddr().String()
		go p.udpLoop()
		return p, nil
	}
	ln, err := net.Listen("tcp", "127.0.0.1:0")
	if err != nil {
		return nil, err
	}
	p.ln, p.addr = ln, ln.Addr().String()
	go p.acceptLoop(ln)
	return p, nil
}

func (p *reconnPeer) handle(req []byte, reply func([]byte), hangup func()) {
	p.mu.Lock()
	plan, served := p.plan, p.served
	p.plan, p.served = nil, nil
	p.mu.Unlock()
	if plan == nil {
		return
	}
	defer close(served)
	w := parseWire(p.rtu, req)
	arr, eof := plan(w)
	p.mu.Lock()
	p.gotReq, p.gotArr = append([]byte(nil), req...), arr
	p.mu.Unlock()
	if len(arr) > 0 {
		reply(arr)
	}
	if eof {
		hangup()
	}
}

func (p *reconnPeer) udpLoop() {
	buf := make([]byte, 600)
	for {
		n, from, err := p.pc.ReadFromUDP(buf)
		if err != nil {
			return
		}
		p.handle(buf[:n], func(b []byte) { p.pc.WriteToUDP(b, from) }, func() {})
	}
}

func (p *reconnPeer) acceptLoop(ln net.Listener) {
	for {
		c, err := ln.Accept()
		if err != nil {
			return
		}
		p.mu.Lock()
		if p.conn != nil {
			p.conn.Close()
		}
		p.conn = c
		p.accepts++
		early := p.early
		p.early = nil
		p.mu.Unlock()
		if len(early) > 0 {
			c.Write(early)
		}
		go func(c net.Conn) {
			buf := make([]byte, 600)
			for {
				n, err := c.Read(buf)
				if err != nil {
					return
				}
				p.handle(buf[:n], func(b []byte) { c.Write(b) }, func() { c.Close() })
			}
		}(c)
	}
}

func (p *reconnPeer) stop() {
	if p.udp {
		p.pc.Close()
		return
	}
	p.ln.Close()
	p.mu.Lock()
	if p.conn != nil {
		p.conn.Close()
	}
	p.mu.Unlock()
}

// pause closes the listener (a dial is then refused); resume listens on the same port again.
func (p *reconnPeer) pause() { p.ln.Close() }
func (p *reconnPeer) resume() error {
	var err error
	for i := 0; i < 50; i++ {
		var ln net.Listener
		ln, err = net.Listen("tcp", p.addr)
		if err == nil {
			p.ln = ln
			go p.acceptLoop(ln)
			return nil
		}
		time.Sleep(10 * time.Millisecond)
	}
	return err
}

func reconnectHistories(tier string, seed uint64, res *Result) error {
	const T = 70 * time.Millisecond
	type hist struct {
		line, impl string
	}
	kinds := []string{"tcp", "rtuovertcp", "udp", "rtuoverudp"}
	nh := scale(tier, 24, 240)
	out := make([]hist, nh)
	var wg sync.WaitGroup
	sem := make(chan struct{}, 12)
	var firstErr error
	var emu sync.Mutex
	for hi := 0; hi < nh; hi++ {
		wg.Add(1)
		sem <- struct{}{}
		go func(hi int) {
			defer wg.Done()
			defer func() { <-sem }()
			r := NewRng(seed).Fork(uint64(9100 + hi))
			kind := kinds[hi%len(kinds)]
			p, err := newReconnPeer(kind)
			if err != nil {
				emu.Lock()
				firstErr = err
				emu.Unlock()
				return
			}
			defer p.stop()
			mc, err := modbus.NewClient(&modbus.ClientConfiguration{URL: kind + "://" + p.addr, Speed: 10000000, Timeout: T, Logger: quietLog})
			if err != nil {
				emu.Lock()
				firstErr = err
				emu.Unlock()
				return
			}
			var steps, obs []string
			// a call, Close or Open that never returns (a lock kept by an earlier failed exchange, a
			// connection that cannot be torn down) is a violation with this history as its input
			hung := false
			var bounded func(what string, f func()) bool
			defer func() {
				if !hung {
					bounded("Close() at the end of the history", func() { mc.Close() })
				}
			}()
			bounded = func(what string, f func()) bool {
				done := make(chan struct{})
				go func() { f(); close(done) }()
				select {
				case <-done:
					return true
				case <-time.After(3 * time.Second):
					hung = true
					res.Add(Finding{Kind: "property", Check: "reconnect-hang", Line: fmt.Sprintf("%s history %s ; then %s", kind, strings.Join(steps, " ; "), what),
						Impl: what + " did not return within 3 s (timeout 70 ms)", Expect: "returns",
						Note: "after a cut exchange, Close and Open must work and the same client must complete its next request"})
					return false
				}
			}
			link := "absent" // absent | live | closed | dead (peer hung up: only close/open may follow)
			afterReopen := false
			n := 5 + r.Intn(6)
			for si := 0; si < n; si++ {
				choice := r.Intn(10)
				switch {
				case link == "dead":
					choice = 7 // close
				case link == "absent" && si == 0 && hi%6 == 0:
					choice = 0 // a call on a client that was never opened
				case link == "absent":
					choice = 8
				case link == "closed" && choice < 7 && r.Chance(3, 4):
					choice = 8
				}
				switch {
				case choice <= 6: // call
					op := genOp(r, false)
					if r.Chance(4, 5) {
						op = c12Ops(r)[r.Intn(3)]
					}
					cls := r.Intn(8)
					if p.udp && (cls == 2 || cls == 3) {
						cls = 0
					}
					if afterReopen && r.Chance(2, 3) {
						cls = 0
					}
					var arrHex = "-"
					ending := "timeout"
					served := make(chan struct{})
					p.mu.Lock()
					p.gotReq, p.gotArr = nil, nil
					p.served = served
					p.plan = func(w wireReq) ([]byte, bool) {
						if !w.ok {
							return nil, false
						}
						good := w.frame(w.unit, w.fc, validReplyPayload(r, w.fc, w.payload))
						switch cls {
						case 0, 1: // the complete valid reply
							return good, false
						case 2: // cut, then the peer closes
							return good[:r.Intn(len(good))], true
						case 3: // complete, then the peer closes
							return good, true
						case 4: // cut, then silence
							return good[:r.Intn(len(good))], false
						case 5: // silence
							return nil, false
						case 6: // a stale frame (previous transaction / other unit) in front
							if w.rtu {
								return good, false
							}
							return append(mbapFrame(w.txn-1, 0, w.unit, w.fc, validReplyPayload(r, w.fc, w.payload)), good...), false
						default: // an exception reply
							return w.frame(w.unit, w.fc|0x80, []byte{byte(1 + r.Intn(6))}), false
						}
					}
					p.mu.Unlock()
					var o string
					if !bounded("call "+op.Line(), func() { o = op.Exec(mc) }) {
						return
					}
					// the call may return before the peer has read the request (stale input made it
					// fail early): wait until the peer is done with it, so that nothing of this
					// exchange is mistaken for the next one. Nothing sent: the wait runs out.
					select {
					case <-served:
					case <-time.After(60 * time.Millisecond):
					}
					p.mu.Lock()
					p.plan, p.served = nil, nil
					req, arr := p.gotReq, p.gotArr
					p.mu.Unlock()
					if len(arr) > 0 {
						arrHex = hx(arr)
					}
					if cls == 2 || cls == 3 {
						ending = "eof"
					}
					ws := "none"
					if len(req) > 0 {
						ws = hx(req)
					}
					steps = append(steps, fmt.Sprintf("call %s %s %s", ending, arrHex, op.Line()))
					obs = append(obs, "w="+ws+" r="+o)
					res.Eval(fmt.Sprintf("reconn/%s/%s/%s/c%d/%s", kind, link, op.Name, cls, strings.SplitN(o, ":", 2)[0]), true, fmt.Sprintf("%s link=%s %s peer-class=%d => %s", kind, link, op.Line(), cls, shorten(o, 60)))
					if link == "live" && len(req) > 0 {
						full := cls == 0 || cls == 1 || cls == 3 || cls == 6
						if (cls == 2 || cls == 4 || cls == 5) && strings.HasPrefix(o, "ok:") {
							res.Add(Finding{Kind: "property", Check: "cut-accepted", Line: fmt.Sprintf("%s %s reply cut (class %d): %s", kind, op.Line(), cls, arrHex), Impl: o, Expect: "an error"})
						}
						if afterReopen && full && !strings.HasPrefix(o, "ok:") {
							res.Add(Finding{Kind: "property", Check: "reopen-fresh", Line: fmt.Sprintf("%s history %s", kind, strings.Join(steps, " ; ")), Impl: o, Expect: "ok", Note: "the first call on a re-established connection did not behave like a call on a fresh connection"})
						}
					}
					afterReopen = false
					if ending == "eof" && len(req) > 0 {
						link = "dead"
					}
				case choice == 7: // close
					if !bounded("Close()", func() { mc.Close() }) {
						return
					}
					steps = append(steps, "close")
					obs = append(obs, "done:1")
					if link != "absent" {
						link = "closed"
					}
				default: // open
					fail := !p.udp && r.Chance(1, 6)
					early := "-"
					if fail {
						p.pause()
						early = "fail"
					} else if kind == "tcp" && r.Chance(1, 4) {
						e := r.Bytes(1 + r.Intn(9))
						p.mu.Lock()
						p.early = e
						p.mu.Unlock()
						early = hx(e)
					}
					p.mu.Lock()
					before := p.accepts
					p.mu.Unlock()
					var err error
					if !bounded("Open()", func() { err = mc.Open() }) {
						return
					}
					if err == nil && !p.udp { // the dial returns before the peer's accept loop has run
						for w := 0; w < 400; w++ {
							p.mu.Lock()
							done := p.accepts > before
							p.mu.Unlock()
							if done {
								break
							}
							time.Sleep(500 * time.Microsecond)
						}
					}
					if fail {
						if rerr := p.resume(); rerr != nil {
							emu.Lock()
							firstErr = rerr
							emu.Unlock()
							return
						}
					}
					steps = append(steps, "open "+early)
					if err == nil {
						obs = append(obs, "done:1")
						link = "live"
						afterReopen = true
						if early != "-" {
							time.Sleep(5 * time.Millisecond) // let the early bytes reach the client's socket buffer
							afterReopen = false
						}
					} else {
						obs = append(obs, "done:0")
					}
					if (err != nil) != fail {
						res.Note(fmt.Sprintf("reconnect: %s Open() error=%v, dial failure planned=%v", kind, err, fail))
						return // environment trouble: this history is dropped
					}
				}
			}
			out[hi] = hist{"reconn " + kind + " 1 1 1 " + strings.Join(steps, " ; "), strings.Join(obs, ";")}
		}(hi)
	}
	wg.Wait()
	if firstErr != nil {
		res.Note("reconnect histories: " + firstErr.Error())
	}
	var lines []string
	var hs []hist
	for _, h := range out {
		if h.line != "" {
			lines = append(lines, h.line)
			hs = append(hs, h)
		}
	}
	outs, err := runModel(lines)
	if err != nil {
		return err
	}
	for i, h := range hs {
		if os.Getenv("VERIF_DEBUG") != "" {
			fmt.Fprintf(os.Stderr, "%s\n   => %s\n", h.line, h.impl)
		}
		if outs[i] != h.impl {
			res.Add(Finding{Kind: "correspondence", Check: "reconn", Line: h.line, Impl: h.impl, Expect: outs[i], Note: "connection history with Close/Open differs from Reconnect.steps"})
		}
	}
	return nil
}
