package main

func init() {
	checks["C01"] = func(tier string, seed uint64, res *Result) error {
		res.Rule = "generated public client calls (boundary-heavy addresses/quantities/slice lengths incl. >= 65536, all 30 methods, 4 encodings, random unit ids) on real clients over scripted connections (tcp, tcp+tls, rtuovertcp, rtu); the bytes written and the local rejection are compared with the Lean model; distinct = (scheme, method, reply class, outcome class)"
		cases := runClientCases(seed, scale(tier, 400, 6000), 16, true, res)
		return compareWithModel("cex", cases, res)
	}
	checks["C02"] = func(tier string, seed uint64, res *Result) error {
		res.Rule = "generated client calls answered by a scripted peer with a mutation of the valid reply (field corruption, all exception codes, all function codes, truncation, extension, foreign frames, random, silence; random segmentation and stream ending); result, bytes consumed and transaction counter compared with the Lean model; distinct = (scheme, method, reply class, outcome class)"
		cases := runClientCases(seed+7, scale(tier, 500, 8000), 16, false, res)
		return compareWithModel("cex", cases, res)
	}
}
