package main

import (
	"strings"
)

// field extracts "key=value" from a canonical output line ("w=.. r=.. txn=.. pend=..").
func field(s, key string) string {
	for _, p := range strings.Split(s, " ") {
		if strings.HasPrefix(p, key+"=") {
			return p[len(key)+1:]
		}
	}
	return ""
}

// specLineOf turns "cex kind unit e w txn pend arr ending Op…" into "sreq kind unit e w txn Op…".
func specLineOf(cex string) string {
	p := strings.Split(cex, " ")
	return "sreq " + strings.Join(p[1:6], " ") + " " + strings.Join(p[9:], " ")
}

// checkC01Property: the bytes written must equal the specified frame, or nothing is written and
// the call fails with unexpected-parameters (Spec.request evaluated by mbmodel).
func checkC01Property(cases []cexCase, res *Result) error {
	lines := make([]string, len(cases))
	for i, c := range cases {
		lines[i] = specLineOf(c.line)
	}
	outs, err := runModel(lines)
	if err != nil {
		return err
	}
	for i, c := range cases {
		w, r := field(c.impl, "w"), field(c.impl, "r")
		spec := outs[i]
		ok := false
		switch {
		case strings.HasPrefix(spec, "ok:"):
			ok = w == spec[3:]
		case spec == "err:ErrUnexpectedParameters":
			ok = w == "none" && r == "err:ErrUnexpectedParameters"
		}
		if !ok {
			res.Add(Finding{Kind: "property", Check: "sreq", Line: c.line, Impl: "w=" + shorten(w, 600) + " r=" + shorten(r, 80),
				Expect: shorten(spec, 600), Note: "request bytes / local rejection differ from Spec.request"})
		}
	}
	return nil
}

func init() {
	checks["C01"] = func(tier string, seed uint64, res *Result) error {
		res.Rule = "generated public client calls (boundary-heavy addresses/quantities/slice lengths incl. >= 65536, all 30 methods, 4 encodings, random unit ids) on real clients over scripted connections (tcp, tcp+tls, rtuovertcp, rtu); bytes written and local rejection compared with the Lean model (correspondence) and with Spec.request (property oracle); distinct = (scheme, method, reply class, outcome class)"
		cases := runClientCases(seed, scale(tier, 400, 6000), 16, true, res)
		if err := checkC01Property(cases, res); err != nil {
			return err
		}
		return compareWithModel("cex", cases, res)
	}
	checks["C02"] = func(tier string, seed uint64, res *Result) error {
		res.Rule = "generated client calls answered by a scripted peer with a mutation of the valid reply (field corruption, all exception codes, all function codes, truncation, extension, foreign frames, random, silence; random segmentation and stream ending); result, bytes consumed and transaction counter compared with the Lean model; distinct = (scheme, method, reply class, outcome class)"
		cases := runClientCases(seed+7, scale(tier, 500, 8000), 16, false, res)
		if err := compareWithModel("cex", cases, res); err != nil {
			return err
		}
		// "a reply to that very request (matching transaction)": short histories with late,
		// duplicated and missing replies (the full version is C05's check)
		c05N = scale(tier, 40, 300)
		defer func() { c05N = 0 }()
		return c05Histories(tier, seed+11, res)
	}
}
