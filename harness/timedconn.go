package main

import (
	"net"
	"os"
	"sync"
	"time"
)

// TimedConn: an in-memory connection with real blocking reads and deadlines, whose peer feeds
// bytes at chosen instants (used for wall-clock scenarios).
type TimedConn struct {
	mu        sync.Mutex
	buf       []byte
	deadline  time.Time // read deadline
	wdeadline time.Time // write deadline
	closed    bool
	// BlockWrites: the peer has stopped draining; a Write blocks until the WRITE deadline (forever
	// without one), like a socket whose buffers are full
	BlockWrites bool
	// WriteDelay: the peer takes the request slowly: a Write lasts this long (or fails at the WRITE
	// deadline if that comes first)
	WriteDelay time.Duration
	OnWrite    func(b []byte, at time.Time)
	LastFeed   time.Time
	WriteAt    []time.Time
	Deadlines  []time.Duration // each SetDeadline, relative to the moment it was called
}

func (c *TimedConn) Feed(b []byte) {
	c.mu.Lock()
	c.buf = append(c.buf, b...)
	c.LastFeed = time.Now()
	c.mu.Unlock()
}

func (c *TimedConn) PendingLen() int {
	c.mu.Lock()
	defer c.mu.Unlock()
	return len(c.buf)
}

func (c *TimedConn) Read(b []byte) (int, error) {
	for {
		c.mu.Lock()
		if c.closed {
			c.mu.Unlock()
			return 0, net.ErrClosed
		}
		// like a real socket (internal/poll: prepareRead fails once the deadline has passed), an
		// expired deadline wins over buffered input
		dl := c.deadline
		if !dl.IsZero() && !time.Now().Before(dl) {
			c.mu.Unlock()
			return 0, os.ErrDeadlineExceeded
		}
		if len(c.buf) > 0 {
			n := copy(b, c.buf)
			c.buf = c.buf[n:]
			c.mu.Unlock()
			return n, nil
		}
		c.mu.Unlock()
		time.Sleep(50 * time.Microsecond)
	}
}

func (c *TimedConn) Write(b []byte) (int, error) {
	now := time.Now()
	c.mu.Lock()
	if c.closed {
		c.mu.Unlock()
		return 0, net.ErrClosed
	}
	c.WriteAt = append(c.WriteAt, now)
	f := c.OnWrite
	block := c.BlockWrites
	delay := c.WriteDelay
	c.mu.Unlock()
	if delay > 0 {
		end := now.Add(delay)
		for time.Now().Before(end) {
			c.mu.Lock()
			wd, closed := c.wdeadline, c.closed
			c.mu.Unlock()
			if closed {
				return 0, net.ErrClosed
			}
			if !wd.IsZero() && !time.Now().Before(wd) {
				return 0, os.ErrDeadlineExceeded
			}
			time.Sleep(200 * time.Microsecond)
		}
	}
	for block {
		c.mu.Lock()
		wd, closed := c.wdeadline, c.closed
		c.mu.Unlock()
		if closed {
			return 0, net.ErrClosed
		}
		if !wd.IsZero() && !time.Now().Before(wd) {
			return 0, os.ErrDeadlineExceeded
		}
		time.Sleep(100 * time.Microsecond)
	}
	if f != nil {
		f(append([]byte(nil), b...), now)
	}
	return len(b), nil
}

func (c *TimedConn) Close() error {
	c.mu.Lock()
	c.closed = true
	c.mu.Unlock()
	return nil
}
func (c *TimedConn) LocalAddr() net.Addr  { return fakeAddr("local") }
func (c *TimedConn) RemoteAddr() net.Addr { return fakeAddr("peer") }
func (c *TimedConn) SetDeadline(t time.Time) error {
	c.mu.Lock()
	c.deadline, c.wdeadline = t, t
	c.Deadlines = append(c.Deadlines, time.Until(t))
	c.mu.Unlock()
	return nil
}
func (c *TimedConn) SetReadDeadline(t time.Time) error {
	c.mu.Lock()
	c.deadline = t
	c.Deadlines = append(c.Deadlines, time.Until(t))
	c.mu.Unlock()
	return nil
}
func (c *TimedConn) SetWriteDeadline(t time.Time) error {
	c.mu.Lock()
	c.wdeadline = t
	c.mu.Unlock()
	return nil
}
