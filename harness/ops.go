package main

import (
	"time"
	"sync"
	"fmt"
	"math"

	"github.com/simonvetter/modbus"
)

// Op is one public client call with its arguments.
type Op struct {
	Name  string
	Addr  uint16
	Qty   uint16
	RT    uint // RegType as passed (0 holding, 1 input, others invalid)
	B     bool
	Bools []bool
	U16   uint16
	U16s  []uint16
	U32s  []uint32 // also float32 bit patterns
	U64s  []uint64 // also float64 bit patterns
	Bytes []byte
}

var readOps = []string{"ReadCoils", "ReadCoil", "ReadDiscreteInputs", "ReadDiscreteInput",
	"ReadRegisters", "ReadRegister", "ReadUint32s", "ReadUint32", "ReadFloat32s", "ReadFloat32",
	"ReadUint64s", "ReadUint64", "ReadFloat64s", "ReadFloat64", "ReadBytes", "ReadRawBytes"}
var writeOps = []string{"WriteCoil", "WriteCoils", "WriteRegister", "WriteRegisters",
	"WriteUint32s", "WriteUint32", "WriteFloat32s", "WriteFloat32", "WriteUint64s", "WriteUint64",
	"WriteFloat64s", "WriteFloat64", "WriteBytes", "WriteRawBytes"}
var allOps = append(append([]string{}, readOps...), writeOps...)

// Line renders the operation in the line protocol understood by mbmodel.
func (o *Op) Line() string {
	switch o.Name {
	case "ReadCoils", "ReadDiscreteInputs":
		return fmt.Sprintf("%s %d %d", o.Name, o.Addr, o.Qty)
	case "ReadCoil", "ReadDiscreteInput":
		return fmt.Sprintf("%s %d", o.Name, o.Addr)
	case "ReadRegisters", "ReadUint32s", "ReadFloat32s", "ReadUint64s", "ReadFloat64s", "ReadBytes", "ReadRawBytes":
		return fmt.Sprintf("%s %d %d %d", o.Name, o.Addr, o.Qty, o.RT)
	case "ReadRegister", "ReadUint32", "ReadFloat32", "ReadUint64", "ReadFloat64":
		return fmt.Sprintf("%s %d %d", o.Name, o.Addr, o.RT)
	case "WriteCoil":
		v := 0
		if o.B {
			v = 1
		}
		return fmt.Sprintf("%s %d %d", o.Name, o.Addr, v)
	case "WriteCoils":
		return fmt.Sprintf("%s %d %s", o.Name, o.Addr, bitsStr(o.Bools))
	case "WriteRegister":
		return fmt.Sprintf("%s %d %d", o.Name, o.Addr, o.U16)
	case "WriteRegisters":
		return fmt.Sprintf("%s %d %s", o.Name, o.Addr, hexU16s(o.U16s))
	case "WriteUint32s", "WriteFloat32s":
		return fmt.Sprintf("%s %d %s", o.Name, o.Addr, hexU32s(o.U32s))
	case "WriteUint32", "WriteFloat32":
		return fmt.Sprintf("%s %d %s", o.Name, o.Addr, hexU32s(o.U32s[:1]))
	case "WriteUint64s", "WriteFloat64s":
		return fmt.Sprintf("%s %d %s", o.Name, o.Addr, hexU64s(o.U64s))
	case "WriteUint64", "WriteFloat64":
		return fmt.Sprintf("%s %d %s", o.Name, o.Addr, hexU64s(o.U64s[:1]))
	case "WriteBytes", "WriteRawBytes":
		return fmt.Sprintf("%s %d %s", o.Name, o.Addr, hx(o.Bytes))
	}
	panic("unknown op " + o.Name)
}

func f32s(bits []uint32) []float32 {
	out := make([]float32, len(bits))
	for i, b := range bits {
		out[i] = math.Float32frombits(b)
	}
	return out
}
func f64s(bits []uint64) []float64 {
	out := make([]float64, len(bits))
	for i, b := range bits {
		out[i] = math.Float64frombits(b)
	}
	return out
}
func bits32(fs []float32) []uint32 {
	out := make([]uint32, len(fs))
	for i, f := range fs {
		out[i] = math.Float32bits(f)
	}
	return out
}
func bits64(fs []float64) []uint64 {
	out := make([]uint64, len(fs))
	for i, f := range fs {
		out[i] = math.Float64bits(f)
	}
	return out
}

func res(err error, val string) string {
	if err != nil {
		return "err:" + canonErr(err)
	}
	return "ok:" + val
}

// Exec runs the operation on the real client; the result is canonical text
// (`ok:<val>`, `err:<name>` or `panic`).
func (o *Op) Exec(mc *modbus.ModbusClient) string {
	// a call that never returns (a mutex kept by an earlier call, …) must not stall a check: after
	// execWatchdog it is reported as the outcome `hang`, and so is every later call on that client
	if _, h := hungClients.Load(mc); h {
		return "hang"
	}
	done := make(chan string, 1)
	go func() { done <- o.exec1(mc) }()
	select {
	case s := <-done:
		return s
	case <-time.After(execWatchdog):
		hungClients.Store(mc, true)
		return "hang"
	}
}

const execWatchdog = 45 * time.Second

var hungClients sync.Map // *modbus.ModbusClient → true

func (o *Op) exec1(mc *modbus.ModbusClient) (out string) {
	defer func() {
		if r := recover(); r != nil {
			out = "panic"
		}
	}()
	rt := modbus.RegType(o.RT)
	switch o.Name {
	case "ReadCoils":
		v, err := mc.ReadCoils(o.Addr, o.Qty)
		return res(err, "b:"+bitsStr(v))
	case "ReadCoil":
		v, err := mc.ReadCoil(o.Addr)
		return res(err, "b:"+bitsStr([]bool{v}))
	case "ReadDiscreteInputs":
		v, err := mc.ReadDiscreteInputs(o.Addr, o.Qty)
		return res(err, "b:"+bitsStr(v))
	case "ReadDiscreteInput":
		v, err := mc.ReadDiscreteInput(o.Addr)
		return res(err, "b:"+bitsStr([]bool{v}))
	case "ReadRegisters":
		v, err := mc.ReadRegisters(o.Addr, o.Qty, rt)
		return res(err, "h:"+hexU16s(v))
	case "ReadRegister":
		v, err := mc.ReadRegister(o.Addr, rt)
		return res(err, "h:"+hexU16s([]uint16{v}))
	case "ReadUint32s":
		v, err := mc.ReadUint32s(o.Addr, o.Qty, rt)
		return res(err, "w:"+hexU32s(v))
	case "ReadUint32":
		v, err := mc.ReadUint32(o.Addr, rt)
		return res(err, "w:"+hexU32s([]uint32{v}))
	case "ReadFloat32s":
		v, err := mc.ReadFloat32s(o.Addr, o.Qty, rt)
		return res(err, "w:"+hexU32s(bits32(v)))
	case "ReadFloat32":
		v, err := mc.ReadFloat32(o.Addr, rt)
		return res(err, "w:"+hexU32s(bits32([]float32{v})))
	case "ReadUint64s":
		v, err := mc.ReadUint64s(o.Addr, o.Qty, rt)
		return res(err, "q:"+hexU64s(v))
	case "ReadUint64":
		v, err := mc.ReadUint64(o.Addr, rt)
		return res(err, "q:"+hexU64s([]uint64{v}))
	case "ReadFloat64s":
		v, err := mc.ReadFloat64s(o.Addr, o.Qty, rt)
		return res(err, "q:"+hexU64s(bits64(v)))
	case "ReadFloat64":
		v, err := mc.ReadFloat64(o.Addr, rt)
		return res(err, "q:"+hexU64s(bits64([]float64{v})))
	case "ReadBytes":
		v, err := mc.ReadBytes(o.Addr, o.Qty, rt)
		return res(err, "x:"+hx(v))
	case "ReadRawBytes":
		v, err := mc.ReadRawBytes(o.Addr, o.Qty, rt)
		return res(err, "x:"+hx(v))
	case "WriteCoil":
		return res(mc.WriteCoil(o.Addr, o.B), "unit")
	case "WriteCoils":
		return res(mc.WriteCoils(o.Addr, o.Bools), "unit")
	case "WriteRegister":
		return res(mc.WriteRegister(o.Addr, o.U16), "unit")
	case "WriteRegisters":
		return res(mc.WriteRegisters(o.Addr, o.U16s), "unit")
	case "WriteUint32s":
		return res(mc.WriteUint32s(o.Addr, o.U32s), "unit")
	case "WriteUint32":
		return res(mc.WriteUint32(o.Addr, o.U32s[0]), "unit")
	case "WriteFloat32s":
		return res(mc.WriteFloat32s(o.Addr, f32s(o.U32s)), "unit")
	case "WriteFloat32":
		return res(mc.WriteFloat32(o.Addr, f32s(o.U32s[:1])[0]), "unit")
	case "WriteUint64s":
		return res(mc.WriteUint64s(o.Addr, o.U64s), "unit")
	case "WriteUint64":
		return res(mc.WriteUint64(o.Addr, o.U64s[0]), "unit")
	case "WriteFloat64s":
		return res(mc.WriteFloat64s(o.Addr, f64s(o.U64s)), "unit")
	case "WriteFloat64":
		return res(mc.WriteFloat64(o.Addr, f64s(o.U64s[:1])[0]), "unit")
	case "WriteBytes":
		return res(mc.WriteBytes(o.Addr, o.Bytes), "unit")
	case "WriteRawBytes":
		return res(mc.WriteRawBytes(o.Addr, o.Bytes), "unit")
	}
	panic("unknown op " + o.Name)
}

// ---- generators ------------------------------------------------------------

var addrPool = []int{0, 1, 2, 7, 8, 100, 255, 256, 1000, 0x7fff, 0x8000, 0xff00, 0xfff0, 0xfffd, 0xfffe, 0xffff}

func genAddr(r *Rng) uint16 {
	switch r.Intn(4) {
	case 0:
		return uint16(r.U64())
	case 1:
		return uint16(0xffff - r.Intn(2100))
	default:
		return uint16(pickInt(r, addrPool))
	}
}

// genCount: a count clustered around 0, 1, the limit, and 16-bit wrap points.
func genCount(r *Rng, limit int, factor int) int {
	switch r.Intn(10) {
	case 0:
		return 0
	case 1:
		return 1
	case 2:
		return limit
	case 3:
		return limit + 1
	case 4:
		return limit - 1
	case 5:
		return 1 + r.Intn(limit)
	case 6:
		return 1 + r.Intn(8)
	case 7: // around multiples of 65536/factor (16-bit wrap of count*factor)
		m := 1 + r.Intn(3)
		return (65536*m)/factor + pickInt(r, []int{-1, 0, 1, 2, limit, limit + 1})
	case 8:
		return pickInt(r, []int{255, 256, 257, 32767, 32768, 65535})
	default:
		return r.Intn(2 * limit)
	}
}

func clamp16(n int) uint16 {
	if n < 0 {
		n = 0
	}
	if n > 65535 {
		n = 65535
	}
	return uint16(n)
}

var special32 = []uint32{0, 1, 0x80000000, 0x7fc00000, 0x7fc00001, 0xffc12345, 0x7f800000, 0xff800000, 0x00000001, 0x7f7fffff, 0x12345678, 0xdeadbeef, 0x0000ffff, 0xffff0000}
var special64 = []uint64{0, 1, 0x8000000000000000, 0x7ff8000000000001, 0xfff8deadbeef1234, 0x7ff0000000000000, 0x0123456789abcdef, 0xffffffff00000000, 0x00000000ffffffff, 0x0000ffff0000ffff}

func genU32(r *Rng) uint32 {
	if r.Chance(1, 3) {
		return special32[r.Intn(len(special32))]
	}
	return uint32(r.U64())
}
func genU64(r *Rng) uint64 {
	if r.Chance(1, 3) {
		return special64[r.Intn(len(special64))]
	}
	return r.U64()
}

// genOp draws a public call; `big` allows slice lengths >= 65536.
func genOp(r *Rng, big bool) *Op {
	name := allOps[r.Intn(len(allOps))]
	return genOpNamed(r, name, big)
}

func genRT(r *Rng) uint {
	switch r.Intn(12) {
	case 0:
		return 2
	case 1:
		return uint(3 + r.Intn(1000))
	default:
		return uint(r.Intn(2))
	}
}

func capLen(n int, big bool) int {
	if n < 0 {
		return 0
	}
	if !big && n > 4200 {
		return 4200
	}
	if n > 200000 {
		return 200000
	}
	return n
}

func genOpNamed(r *Rng, name string, big bool) *Op {
	o := &Op{Name: name, Addr: genAddr(r), RT: genRT(r)}
	switch name {
	case "ReadCoils", "ReadDiscreteInputs":
		o.Qty = clamp16(genCount(r, 2000, 1))
	case "ReadRegisters":
		o.Qty = clamp16(genCount(r, 125, 1))
	case "ReadUint32s", "ReadFloat32s":
		o.Qty = clamp16(genCount(r, 62, 2))
	case "ReadUint64s", "ReadFloat64s":
		o.Qty = clamp16(genCount(r, 31, 4))
	case "ReadBytes", "ReadRawBytes":
		o.Qty = clamp16(genCount(r, 250, 1))
	case "WriteCoil":
		o.B = r.Bool()
	case "WriteCoils":
		n := capLen(genCount(r, 1968, 1), big)
		o.Bools = make([]bool, n)
		for i := range o.Bools {
			o.Bools[i] = r.Bool()
		}
	case "WriteRegister":
		o.U16 = uint16(r.U64())
	case "WriteRegisters":
		n := capLen(genCount(r, 123, 2), big)
		o.U16s = make([]uint16, n)
		for i := range o.U16s {
			o.U16s[i] = uint16(r.U64())
		}
	case "WriteUint32s", "WriteFloat32s":
		n := capLen(genCount(r, 61, 4), big)
		o.U32s = make([]uint32, n)
		for i := range o.U32s {
			o.U32s[i] = genU32(r)
		}
	case "WriteUint32", "WriteFloat32":
		o.U32s = []uint32{genU32(r)}
	case "WriteUint64s", "WriteFloat64s":
		n := capLen(genCount(r, 30, 8), big)
		o.U64s = make([]uint64, n)
		for i := range o.U64s {
			o.U64s[i] = genU64(r)
		}
	case "WriteUint64", "WriteFloat64":
		o.U64s = []uint64{genU64(r)}
	case "WriteBytes", "WriteRawBytes":
		n := capLen(genCount(r, 246, 1), big)
		o.Bytes = r.Bytes(n)
	}
	return o
}
