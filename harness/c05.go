package main

import (
	"fmt"
	"strings"
	"sync"
)

type lateFrame struct {
	due   int // request index at which it is delivered
	frame []byte
}

// c05Histories: n exchanges per worker (0: the tier's default). Also run, shortened, by C02, whose
// statement includes "a reply to that very request (matching transaction)".
var c05N int

func init() {
	checks["C05"] = func(tier string, seed uint64, res *Result) error {
		return c05Histories(tier, seed, res)
	}
}

func c05Histories(tier string, seed uint64, res *Result) error {
	{
		if c05N == 0 {
			res.Rule = "histories of requests on real MBAP clients (tcp, tcp+tls) over scripted connections; per request the peer answers on time, late (during a later request), twice, never, with foreign-protocol frames, or stops draining so that the write is cut by the deadline and answers that id later, in any order around the own reply; every reply carries the index of the request it answers; a returned value must carry the index of the call that returned it; each exchange is also compared with the Lean model; distinct = (delivery class of own reply, number/kind of foreign frames present, outcome)"
		}
		workers := 16
		n := scale(tier, 400, 6000)
		if c05N > 0 {
			n = c05N
		}
		var mu sync.Mutex
		var pairs [][2]string
		var wg sync.WaitGroup
		for wi := 0; wi < workers; wi++ {
			wg.Add(1)
			go func(wi int) {
				defer wg.Done()
				r := NewRng(seed).Fork(uint64(2000 + wi))
				s, err := newSession([]string{"tcp", "tcp+tls"}[wi%2])
				if err != nil {
					res.Note(err.Error())
					return
				}
				// thorough, worker 0: full wrap of the 16-bit id space with stale replies 65535 / 65536 requests old
				wrap := tier == "thorough" && wi == 0
				total := n
				if wrap {
					total = 66100
				}
				var late []lateFrame
				var local [][2]string
				var prevTxn uint16
				var havePrev bool
				var prevMode string
				for i := 0; i < total; i++ {
					op := &Op{Name: "ReadRegisters", Addr: uint16(i % 1000), Qty: 2}
					mode := "ontime"
					switch r.Intn(10) {
					case 0:
						mode = "never"
					case 1, 2:
						mode = "late"
					case 3:
						mode = "twice"
					case 4:
						mode = "foreign-proto-then-own"
					case 6:
						if r.Chance(1, 2) {
							mode = "write-cut"
						}
					case 5:
						if r.Chance(1, 3) {
							mode = "flood-then-own"
						} else if r.Chance(1, 2) {
							mode = "flood-only"
						}
					}
					if wrap {
						mode = "ontime"
						if i < 40 {
							mode = "late-wrap"
						}
					}
					nStale := 0
					if mode == "write-cut" {
						s.conn.WriteCut = 7
					}
					line, impl, _ := s.exchange(op, "timeout", true, func(w wireReq) [][]byte {
						own := mbapFrame(w.txn, 0, w.unit, w.fc, taggedReply(w, uint16(i)))
						if havePrev && w.txn == prevTxn {
							res.Add(Finding{Kind: "property", Check: "distinct-ids", Line: fmt.Sprintf("request #%d after a request whose outcome was %s", i, prevMode),
								Impl: fmt.Sprintf("both carried transaction id %d", w.txn), Expect: "consecutive requests use distinct transaction ids",
								Note: "a late reply to the earlier request would satisfy the later one"})
						}
						prevTxn, havePrev, prevMode = w.txn, true, mode
						var stream []byte
						// stale frames due now, before or after the own reply
						var before, after [][]byte
						keep := late[:0]
						for _, lf := range late {
							if lf.due <= i {
								nStale++
								if r.Bool() {
									before = append(before, lf.frame)
								} else {
									after = append(after, lf.frame)
								}
							} else {
								keep = append(keep, lf)
							}
						}
						late = keep
						for _, f := range before {
							stream = append(stream, f...)
						}
						switch mode {
						case "ontime":
							stream = append(stream, own...)
						case "twice":
							stream = append(stream, own...)
							late = append(late, lateFrame{i + 1 + r.Intn(5), own})
						case "late":
							late = append(late, lateFrame{i + 1 + r.Intn(6), own})
						case "write-cut":
							// the write reports a timeout after the header; the peer answers that id later
							late = append(late, lateFrame{i + 1 + r.Intn(3), own})
						case "late-wrap":
							late = append(late, lateFrame{i + 65535 + (i % 2), own}) // 65535 (must be skipped) or 65536 (same id again)
						case "flood-then-own", "flood-only":
							// many well-formed frames with stale transaction ids / foreign protocol ids
							for k := 0; k < 5+r.Intn(20); k++ {
								if r.Chance(1, 4) {
									stream = append(stream, mbapFrame(w.txn, uint16(1+r.Intn(65535)), w.unit, w.fc, taggedReply(w, 0xbeef))...)
								} else {
									stream = append(stream, mbapFrame(w.txn-uint16(1+r.Intn(200)), 0, w.unit, w.fc, taggedReply(w, 0xbeef))...)
								}
							}
							if mode == "flood-then-own" {
								stream = append(stream, own...)
							}
						case "foreign-proto-then-own":
							stream = append(stream, mbapFrame(w.txn, uint16(1+r.Intn(65535)), w.unit, w.fc, taggedReply(w, 0xdead))...)
							stream = append(stream, own...)
						}
						for _, f := range after {
							stream = append(stream, f...)
						}
						return randomChunks(r, stream)
					})
					if mode == "write-cut" {
						// not a model step (the model's exchange has no failing write); the outcome must be an error
						if isOK(impl) {
							res.Add(Finding{Kind: "property", Check: "history", Line: line, Impl: impl, Expect: "an error",
								Note: "the write was cut short by the deadline but the call reported success"})
						}
						res.Eval("write-cut/"+field(impl, "r"), true, line+" => "+impl)
						res.Count("own:" + mode)
						if s.kind == "tcp+tls" {
							// documented: the tls adapter closes the connection after a write timeout (crypto/tls
							// state is unusable); every later call fails until Close/Open. Continue on a fresh client.
							if s2, err := newSession("tcp+tls"); err == nil {
								s, late, havePrev = s2, nil, false
							} else {
								res.Note(err.Error())
								break
							}
						}
						continue
					}
					if !wrap || i < 200 || i > 65400 {
						local = append(local, [2]string{line, impl})
					}
					rv := field(impl, "r")
					outc := rv
					if strings.HasPrefix(rv, "ok:") {
						outc = "ok"
						// returned registers: first register is the tag
						want := fmt.Sprintf("ok:h:%04x", uint16(i))
						if !strings.HasPrefix(rv, want) {
							// allowed only if the accepted frame is exactly 65536 requests old (same id): not within 65535
							res.Add(Finding{Kind: "property", Check: "history", Line: line, Impl: impl, Expect: want + "…",
								Note: fmt.Sprintf("request #%d returned a reply that answers another request", i)})
						}
					} else if mode == "ontime" || mode == "twice" || mode == "foreign-proto-then-own" || mode == "flood-then-own" {
						res.Add(Finding{Kind: "property", Check: "history", Line: line, Impl: impl, Expect: "ok",
							Note: "own reply was delivered (behind foreign frames) but the call did not return it"})
					} else if rv != "err:ErrRequestTimedOut" {
						res.Add(Finding{Kind: "property", Check: "history", Line: line, Impl: impl, Expect: "err:ErrRequestTimedOut",
							Note: "only foreign frames were delivered: the call must keep waiting until the timeout"})
					}
					res.Eval(fmt.Sprintf("%s/stale%d/%s", mode, min(nStale, 3), outc), true, line+" => "+impl)
					res.Count("own:" + mode)
				}
				mu.Lock()
				pairs = append(pairs, local...)
				mu.Unlock()
			}(wi)
		}
		wg.Wait()
		return modelCheck("cex", pairs, res)
	}
}
