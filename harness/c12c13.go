package main

import (
	"fmt"
	"net"
	"strings"
	"sync"
	"time"

	"github.com/simonvetter/modbus"
)

// partitions of a byte string used by C12
func partitions(r *Rng, b []byte, tier string) [][][]byte {
	var out [][][]byte
	out = append(out, [][]byte{b})  // one read
	out = append(out, bytewise(b))  // byte by byte
	for i := 1; i < len(b); i++ { // every single split point
		out = append(out, splitAt(b, i))
	}
	if tier == "thorough" && len(b) <= 40 { // every pair of split points
		for i := 1; i < len(b); i++ {
			for j := i + 1; j < len(b); j++ {
				out = append(out, splitAt(b, i, j))
			}
		}
	} else {
		for k := 0; k < 12 && len(b) > 2; k++ {
			i := 1 + r.Intn(len(b)-1)
			j := 1 + r.Intn(len(b)-1)
			if i > j {
				i, j = j, i
			}
			out = append(out, splitAt(b, i, j))
		}
	}
	for k := 0; k < 4; k++ {
		out = append(out, randomChunks(r, b))
	}
	return out
}

func c12Ops(r *Rng) []*Op {
	return []*Op{
		{Name: "ReadRegisters", Addr: genAddr(r) & 0x7fff, Qty: uint16(1 + r.Intn(6))},
		{Name: "ReadCoils", Addr: genAddr(r) & 0x7fff, Qty: uint16(1 + r.Intn(30))},
		{Name: "WriteRegister", Addr: genAddr(r), U16: uint16(r.U64())},
		{Name: "WriteCoils", Addr: genAddr(r) & 0x7fff, Bools: []bool{true, false, true}},
		{Name: "ReadFloat64", Addr: genAddr(r) & 0x7fff},
		{Name: "ReadBytes", Addr: genAddr(r) & 0x7fff, Qty: uint16(1 + r.Intn(9))},
	}
}

func init() {
	checks["C12"] = func(tier string, seed uint64, res *Result) error {
		res.Rule = "client (tcp, tcp+tls, rtuovertcp, rtu; and udp/rtuoverudp over real loopback datagrams) and server: the same reply / request stream (valid, with a foreign frame in front, pipelined, with trailing garbage) delivered under every single split point, byte-wise, coalesced, split-point pairs (all pairs in thorough for short streams) and random partitions incl. zero-length reads; results must equal the one-read delivery and the Lean model; distinct = (side, scheme, op, stream class, partition class)"
		var mu sync.Mutex
		var pairs [][2]string
		var srvCases []cexCase
		var wg sync.WaitGroup
		for wi, kind := range []string{"tcp", "tcp+tls", "rtuovertcp", "rtu"} {
			wg.Add(1)
			go func(wi int, kind string) {
				defer wg.Done()
				r := NewRng(seed).Fork(uint64(3000 + wi))
				s, err := newSession(kind)
				if err != nil {
					res.Note(err.Error())
					return
				}
				var local [][2]string
				for round := 0; round < scale(tier, 2, 8); round++ {
					s.setEnc(uint(1+r.Intn(2)), uint(1+r.Intn(2)))
					for _, op := range c12Ops(r) {
						for _, class := range []string{"valid", "foreign-first", "foreign-proto-first", "trailing"} {
							var stream []byte
							build := func(w wireReq) []byte {
								good := w.frame(w.unit, w.fc, taggedReply(w, 0x0102))
								switch class {
								case "foreign-first":
									if w.rtu {
										return good
									}
									return append(mbapFrame(w.txn-1, 0, w.unit, w.fc, taggedReply(w, 9)), good...)
								case "foreign-proto-first": // a frame of another protocol (id != 0) must be skipped as a whole
									if w.rtu {
										return good
									}
									return append(mbapFrame(w.txn, 0x0001, w.unit, w.fc, taggedReply(w, 9)), good...)
								case "trailing":
									return append(append([]byte(nil), good...), 0xde, 0xad)
								}
								return good
							}
							// reference: one read
							_, ref, _ := s.exchange(op, "timeout", true, func(w wireReq) [][]byte {
								stream = build(w)
								return [][]byte{stream}
							})
							if !isRTUKind(kind) {
								// keep the transaction id stable across partitions: each run uses the next id,
								// so results are compared on the r= and pend= fields only
							}
							for pi, part := range partitions(r, stream, tier) {
								part := part
								line, impl, _ := s.exchange(op, "timeout", true, func(w wireReq) [][]byte {
									full := build(w)
									// same partition shape applied to this exchange's stream (same length)
									var chunks [][]byte
									off := 0
									for _, c := range part {
										chunks = append(chunks, full[off:off+len(c)])
										off += len(c)
									}
									return chunks
								})
								local = append(local, [2]string{line, impl})
								pclass := "random"
								switch {
								case pi == 0:
									pclass = "one"
								case pi == 1:
									pclass = "bytewise"
								case pi < 1+len(stream):
									pclass = "single-split"
								}
								res.Eval("client/"+kind+"/"+op.Name+"/"+class+"/"+pclass, true, line+" => "+impl)
								if field(impl, "r") != field(ref, "r") || field(impl, "pend") != field(ref, "pend") {
									res.Add(Finding{Kind: "property", Check: "segmentation", Line: line, Impl: impl, Expect: ref,
										Note: fmt.Sprintf("result depends on segmentation (partition %v)", lens(part))})
								}
							}
						}
					}
				}
				mu.Lock()
				pairs = append(pairs, local...)
				mu.Unlock()
			}(wi, kind)
		}
		// server side
		wg.Add(1)
		go func() {
			defer wg.Done()
			r := NewRng(seed).Fork(3100)
			var local []cexCase
			for round := 0; round < scale(tier, 25, 200); round++ {
				stream, labels := genServerStream(r)
				if len(stream) == 0 {
					continue
				}
				script := genScript(r)
				ending := []string{"timeout", "eof", "reset"}[r.Intn(3)]
				ref, _ := serveScripted(script, [][]byte{stream}, ending)
				line := fmt.Sprintf("srv %s %s %s", strings.Join(script, ","), ending, hx(stream))
				for _, part := range partitions(r, stream, tier) {
					ev, _ := serveScripted(script, part, ending)
					local = append(local, cexCase{line: line, impl: ev, label: strings.Join(labels, ","), key: "server/" + labels[0] + "/" + fmt.Sprint(len(part) > 1)})
					if ev != ref {
						res.Add(Finding{Kind: "property", Check: "segmentation-server", Line: line, Impl: ev, Expect: ref,
							Note: fmt.Sprintf("server events depend on segmentation (partition %v)", lens(part))})
					}
				}
			}
			mu.Lock()
			srvCases = append(srvCases, local...)
			mu.Unlock()
		}()
		wg.Wait()
		if err := udpSegmentation(tier, seed, res); err != nil {
			return err
		}
		if err := compareServer("srv", srvCases, res); err != nil {
			return err
		}
		for _, p := range pairs {
			_ = p
		}
		return modelCheck("cex", pairs, res)
	}

	checks["C13"] = func(tier string, seed uint64, res *Result) error {
		res.Rule = "every request/reply frame type x every byte offset 0..len x {peer closes (eof), peer resets, peer stalls (timeout)}: server: no handler call for the cut frame, exactly one for the complete frame, no panic, session ends; client: a cut reply is an error, never success; then a fresh client (Close+Open installs a new transport) completes the same request; compared with the Lean model; thorough adds real TCP sockets with Close/Open; distinct = (side, scheme, op or fc, ending, cut position class)"
		var mu sync.Mutex
		var pairs [][2]string
		var srvCases []cexCase
		var wg sync.WaitGroup
		for wi, kind := range []string{"tcp", "tcp+tls", "rtuovertcp", "rtu"} {
			wg.Add(1)
			go func(wi int, kind string) {
				defer wg.Done()
				r := NewRng(seed).Fork(uint64(4000 + wi))
				s, err := newSession(kind)
				if err != nil {
					res.Note(err.Error())
					return
				}
				var local [][2]string
				ops := append(c12Ops(r), &Op{Name: "WriteCoil", Addr: 7, B: true}, &Op{Name: "WriteRegisters", Addr: 9, U16s: []uint16{1, 2, 3}},
					&Op{Name: "ReadDiscreteInputs", Addr: 3, Qty: 9}, &Op{Name: "ReadRegisters", Addr: 1, Qty: 3, RT: 1}, &Op{Name: "ReadRegisters", Addr: 2, Qty: 1})
				for _, op := range ops {
					var good []byte
					_, ref, _ := s.exchange(op, "timeout", true, func(w wireReq) [][]byte {
						good = w.frame(w.unit, w.fc, taggedReply(w, 0x0a0b))
						return [][]byte{good}
					})
					if !isOK(ref) {
						res.Add(Finding{Kind: "property", Check: "valid-reply", Line: op.Line(), Impl: ref, Expect: "ok"})
						continue
					}
					hangs := 0
					for k := 0; k <= len(good) && hangs < 2; k++ {
						for _, ending := range []string{"eof", "reset", "timeout"} {
							if hangs >= 2 { // two failing inputs per operation are enough; each costs a watchdog period
								break
							}
							k := k
							line, impl, _ := s.exchange(op, ending, true, func(w wireReq) [][]byte {
								full := w.frame(w.unit, w.fc, taggedReply(w, 0x0a0b))
								return randomChunks(r, full[:k])
							})
							local = append(local, [2]string{line, impl})
							if r := field(impl, "r"); r == "hang" || strings.HasSuffix(impl, "then-hang") || strings.Contains(impl, " then-hang ") {
								hangs++
								res.Add(Finding{Kind: "property", Check: "call-hang", Line: line, Impl: impl, Expect: "the call returns",
									Note: "after a cut-off exchange the client kept its lock: the next operation on it never returns"})
							}
							pos := "mid"
							if k == 0 {
								pos = "empty"
							} else if k == len(good) {
								pos = "full"
							} else if k < 8 {
								pos = "header"
							}
							res.Eval("client/"+kind+"/"+op.Name+"/"+ending+"/"+pos, true, line+" => "+impl)
							if k < len(good) && isOK(impl) {
								res.Add(Finding{Kind: "property", Check: "cut-accepted", Line: line, Impl: impl, Expect: "an error",
									Note: fmt.Sprintf("reply cut after %d of %d bytes (%s) was reported as success", k, len(good), ending)})
							}
							if k == len(good) && !isOK(impl) {
								res.Add(Finding{Kind: "property", Check: "full-rejected", Line: line, Impl: impl, Expect: "ok"})
							}
							if k < len(good) && ending == "timeout" && !isRTUKind(kind) && field(impl, "r") != "err:ErrRequestTimedOut" {
								res.Add(Finding{Kind: "property", Check: "stall-not-timeout", Line: line, Impl: impl, Expect: "err:ErrRequestTimedOut"})
							}
						}
					}
					// replies whose last CRC byte is 0x00 (the value a zero-filled receive buffer holds
					// where the missing byte would go), cut one byte short
					if isRTUKind(kind) && op.Name == "ReadRegisters" && op.Qty == 1 {
						found := 0
						for v := 0; v < 65536 && found < 3; v++ {
							v := v
							probe := rtuFrame(1, 3+byte(op.RT), []byte{2, byte(v >> 8), byte(v)})
							if probe[len(probe)-1] != 0 {
								continue
							}
							found++
							for _, ending := range []string{"eof", "reset", "timeout"} {
								line, impl, _ := s.exchange(op, ending, true, func(w wireReq) [][]byte {
									full := rtuFrame(w.unit, w.fc, []byte{2, byte(v >> 8), byte(v)})
									return [][]byte{full[:len(full)-1]}
								})
								local = append(local, [2]string{line, impl})
								res.Eval("client/"+kind+"/crc-zero-tail/"+ending, true, line+" => "+impl)
								if isOK(impl) {
									res.Add(Finding{Kind: "property", Check: "cut-accepted", Line: line, Impl: impl, Expect: "an error",
										Note: "reply cut one byte short of a CRC ending in 0x00 was reported as success"})
								}
							}
						}
					}
					// Close + Open: a fresh transport completes the next request normally
					if !s.hung {
						closed := make(chan struct{})
						go func(mc interface{ Close() error }) { mc.Close(); close(closed) }(s.mc)
						select {
						case <-closed:
						case <-time.After(5 * time.Second):
							res.Add(Finding{Kind: "property", Check: "call-hang", Line: kind + " " + op.Line() + ": every cut of its reply, then Close()", Impl: "Close() did not return within 5 s",
								Expect: "Close returns", Note: "after a cut-off exchange the client could not be closed"})
						}
					}
					s2, err := newSession(kind)
					if err == nil {
						s2.setEnc(s.e, s.w)
						line, impl, _ := s2.exchange(op, "timeout", true, func(w wireReq) [][]byte {
							return [][]byte{w.frame(w.unit, w.fc, taggedReply(w, 0x0a0b))}
						})
						local = append(local, [2]string{line, impl})
						if !isOK(impl) {
							res.Add(Finding{Kind: "property", Check: "reopen", Line: line, Impl: impl, Expect: "ok", Note: "after Close and Open the next request did not complete"})
						}
						*s = *s2
					}
				}
				mu.Lock()
				pairs = append(pairs, local...)
				mu.Unlock()
			}(wi, kind)
		}
		// server: every request type x every cut
		wg.Add(1)
		go func() {
			defer wg.Done()
			r := NewRng(seed).Fork(4100)
			reqs := [][2]interface{}{
				{byte(1), append(be16b(10), be16b(19)...)}, {byte(2), append(be16b(0xfff0), be16b(16)...)},
				{byte(3), append(be16b(100), be16b(125)...)}, {byte(4), append(be16b(0), be16b(1)...)},
				{byte(5), append(be16b(5), 0xff, 0x00)}, {byte(6), append(be16b(6), 0x12, 0x34)},
				{byte(15), append(append(be16b(20), be16b(10)...), 2, 0xcd, 0x01)},
				{byte(16), append(append(be16b(30), be16b(2)...), 4, 0, 10, 1, 2)},
				{byte(0x2b), []byte{0x0e, 1, 0}},
			}
			var local []cexCase
			for _, rq := range reqs {
				fc, pl := rq[0].(byte), rq[1].([]byte)
				frame := mbapFrame(uint16(r.U64()), 0, byte(r.U64()), fc, pl)
				for _, pre := range [][]byte{nil, mbapFrame(7, 0, 1, 3, append(be16b(1), be16b(1)...))} {
					for k := 0; k <= len(frame); k++ {
						for _, ending := range []string{"eof", "reset", "timeout"} {
							stream := append(append([]byte(nil), pre...), frame[:k]...)
							ev, _ := serveScripted([]string{"ok"}, randomChunks(r, stream), ending)
							line := fmt.Sprintf("srv ok %s %s", ending, hx(stream))
							local = append(local, cexCase{line: line, impl: ev, label: fmt.Sprintf("fc%d/cut", fc), key: fmt.Sprintf("server/fc%d/%s/%v/%v", fc, ending, k == len(frame), pre != nil)})
							calls := strings.Count(ev, "call:")
							wantPre := 0
							if pre != nil {
								wantPre = 1
							}
							want := wantPre
							if k == len(frame) && fc != 0x2b {
								want++
							}
							if k == len(frame) && ending == "eof" {
								// cut right after the request: the response cannot be written any more
								evw, _ := serveScriptedWriteFail([]string{"ok"}, [][]byte{stream}, ending)
								if cw := strings.Count(evw, "call:"); cw != want || strings.Contains(evw, "panic") {
									res.Add(Finding{Kind: "property", Check: "server-cut-after-request", Line: line, Impl: evw, Expect: fmt.Sprintf("%d handler call(s), no panic", want),
										Note: "connection cut after the request was fully received: the handler must run exactly once even though the response cannot be written"})
								}
							}
							if strings.Contains(ev, "spin") {
								res.Add(Finding{Kind: "property", Check: "server-cut-session-ends", Line: line, Impl: ev, Expect: "the session ends (connection closed, slot released)",
									Note: fmt.Sprintf("request cut after %d of %d bytes (%s): the session goroutine keeps spinning on the dead connection", k, len(frame), ending)})
							}
							if calls != want || strings.Contains(ev, "panic") {
								res.Add(Finding{Kind: "property", Check: "server-cut", Line: line, Impl: ev, Expect: fmt.Sprintf("%d handler call(s), no panic", want),
									Note: fmt.Sprintf("request cut after %d of %d bytes (%s)", k, len(frame), ending)})
							}
						}
					}
				}
			}
			mu.Lock()
			srvCases = append(srvCases, local...)
			mu.Unlock()
		}()
		wg.Wait()
		if tier == "thorough" {
			realSocketCuts(seed, res)
		}
		if err := reconnectHistories(tier, seed, res); err != nil {
			return err
		}
		// bursts of connections of which all but one are cut mid-request: the complete one is handled
		// exactly once, every slot comes back
		burstProbe(tier, res, true)
		if err := compareServer("srv", srvCases, res); err != nil {
			return err
		}
		return modelCheck("cex", pairs, res)
	}
}

func lens(p [][]byte) []int {
	out := make([]int, len(p))
	for i, c := range p {
		out[i] = len(c)
	}
	return out
}

// udpSegmentation: real loopback datagrams: the reply stream is cut into datagrams of at most 260
// bytes in several ways; the client (udp, rtuoverudp) must return the same result.
// udpCoalescedAcrossIdle: one datagram carries reply N and the beginning of reply N+1; the caller
// idles for longer than the timeout before issuing request N+1; the rest of reply N+1 then arrives
// in its own datagram. The result must be the one per-frame delivery gives.
func udpCoalescedAcrossIdle(res *Result) {
	for _, kind := range []string{"udp", "rtuoverudp"} {
		peer, err := net.ListenUDP("udp", &net.UDPAddr{IP: net.IPv4(127, 0, 0, 1)})
		if err != nil {
			return
		}
		cconn, err := net.DialUDP("udp", nil, peer.LocalAddr().(*net.UDPAddr))
		if err != nil {
			peer.Close()
			return
		}
		T := 60 * time.Millisecond
		mc, err := modbus.VerifNewClientOnConn(&modbus.ClientConfiguration{URL: kind + "://" + peer.LocalAddr().String(), Speed: 10000000, Timeout: T, Logger: quietLog}, cconn)
		if err != nil {
			peer.Close()
			return
		}
		rtu := isRTUKind(kind)
		for _, pause := range []time.Duration{2 * time.Millisecond, 150 * time.Millisecond} {
			go func() {
				buf := make([]byte, 512)
				var held []byte
				for i := 0; i < 2; i++ {
					peer.SetReadDeadline(time.Now().Add(2 * time.Second))
					n, from, err := peer.ReadFromUDP(buf)
					if err != nil {
						return
					}
					w := parseWire(rtu, buf[:n])
					if i == 0 {
						r1 := w.frame(w.unit, w.fc, []byte{2, 0x11, 0x11})
						w2 := w
						w2.txn = w.txn + 1
						r2 := w2.frame(w.unit, w.fc, []byte{2, 0x22, 0x22})
						peer.WriteToUDP(append(append([]byte(nil), r1...), r2[:4]...), from)
						held = r2[4:]
					} else {
						peer.WriteToUDP(held, from)
					}
				}
			}()
			op := &Op{Name: "ReadRegisters", Addr: 9, Qty: 1}
			o1 := op.Exec(mc)
			time.Sleep(pause)
			o2 := op.Exec(mc)
			line := fmt.Sprintf("%s: reply 1 and the first 4 bytes of reply 2 in one datagram; the caller idles %v (timeout %v); the rest of reply 2 in a second datagram", kind, pause, T)
			res.Eval(fmt.Sprintf("udp-idle/%s/%v", kind, pause > T), true, line+" => "+o1+" ; "+o2)
			if o1 != "ok:h:1111" || o2 != "ok:h:2222" {
				res.Add(Finding{Kind: "property", Check: "udp-coalesced-idle", Line: line, Impl: o1 + " ; " + o2, Expect: "ok:h:1111 ; ok:h:2222",
					Note: "bytes of the following frame that arrived coalesced with the previous reply were lost"})
			}
		}
		mc.Close()
		peer.Close()
	}
}

func udpSegmentation(tier string, seed uint64, res *Result) error {
	udpCoalescedAcrossIdle(res)
	r := NewRng(seed).Fork(3200)
	for _, kind := range []string{"udp", "rtuoverudp"} {
		peer, err := net.ListenUDP("udp", &net.UDPAddr{IP: net.IPv4(127, 0, 0, 1)})
		if err != nil {
			res.Note("udp unavailable: " + err.Error())
			return nil
		}
		cconn, err := net.DialUDP("udp", nil, peer.LocalAddr().(*net.UDPAddr))
		if err != nil {
			peer.Close()
			res.Note("udp unavailable: " + err.Error())
			return nil
		}
		conf := &modbus.ClientConfiguration{URL: kind + "://" + peer.LocalAddr().String(), Speed: 10000000, Timeout: 300 * time.Millisecond, Logger: quietLog}
		mc, err := modbus.VerifNewClientOnConn(conf, cconn)
		if err != nil {
			return err
		}
		rtu := isRTUKind(kind)
		for round := 0; round < scale(tier, 3, 12); round++ {
			ops := c12Ops(r)
			if round == 0 { // replies that fill a datagram to the limit (MBAP 257..260 bytes, RTU 253..255)
				ops = append(ops, &Op{Name: "ReadRegisters", Addr: 5, Qty: 125}, &Op{Name: "ReadRegisters", Addr: 5, Qty: 124},
					&Op{Name: "ReadCoils", Addr: 5, Qty: 2000}, &Op{Name: "ReadCoils", Addr: 5, Qty: 1980})
			}
			for _, op := range ops {
				var ref string
				for pi := 0; pi < scale(tier, 6, 16); pi++ {
					done := make(chan string, 1)
					go func(pi int) {
						buf := make([]byte, 512)
						peer.SetReadDeadline(time.Now().Add(2 * time.Second))
						n, from, err := peer.ReadFromUDP(buf)
						if err != nil {
							done <- "peer-read-error"
							return
						}
						w := parseWire(rtu, buf[:n])
						good := w.frame(w.unit, w.fc, taggedReply(w, 0x0102))
						stream := good
						if !rtu && pi%3 == 2 { // a stale frame coalesced in front, same datagram or not
							stream = append(mbapFrame(w.txn-1, 0, w.unit, w.fc, taggedReply(w, 9)), good...)
						}
						var parts [][]byte
						switch pi {
						case 0:
							parts = [][]byte{stream}
						case 1:
							parts = bytewise(stream)
						default:
							parts = randomChunks(r, stream)
						}
						// the property is about datagrams of at most 260 bytes: larger pieces are cut
						var capped [][]byte
						for _, p := range parts {
							for len(p) > 260 {
								capped = append(capped, p[:260])
								p = p[260:]
							}
							capped = append(capped, p)
						}
						parts = capped
						// UDP may drop datagrams when hundreds arrive in one burst (the property is not
						// about loss): at most 48 datagrams per reply, neighbours coalesced beyond that
						for len(parts) > 48 {
							var merged [][]byte
							for i := 0; i < len(parts); i += 2 {
								if i+1 < len(parts) && len(parts[i])+len(parts[i+1]) <= 260 {
									merged = append(merged, append(append([]byte(nil), parts[i]...), parts[i+1]...))
								} else {
									merged = append(merged, parts[i])
									if i+1 < len(parts) {
										merged = append(merged, parts[i+1])
									}
								}
							}
							if len(merged) == len(parts) {
								break
							}
							parts = merged
						}
						for i, p := range parts {
							if len(p) > 0 {
								peer.WriteToUDP(p, from)
							}
							if i%8 == 7 {
								time.Sleep(200 * time.Microsecond)
							}
						}
						done <- fmt.Sprint(lens(parts))
					}(pi)
					out := op.Exec(mc)
					shape := <-done
					res.Eval("client/"+kind+"/"+op.Name+"/dgram"+fmt.Sprint(min(pi, 2)), true, kind+" "+op.Line()+" datagrams "+shape+" => "+out)
					if pi == 0 {
						ref = out
						if !strings.HasPrefix(out, "ok:") {
							res.Add(Finding{Kind: "property", Check: "udp-valid", Line: kind + " " + op.Line(), Impl: out, Expect: "ok"})
						}
					} else if out != ref {
						res.Add(Finding{Kind: "property", Check: "udp-segmentation", Line: kind + " " + op.Line() + " datagrams " + shape, Impl: out, Expect: ref,
							Note: "result depends on how the reply was cut into datagrams"})
					}
				}
			}
		}
		mc.Close()
		peer.Close()
	}
	return nil
}

// realSocketCuts: real TCP loopback; the peer closes / resets after k bytes of the reply; then
// Close + Open on the same client and a normal exchange.
func realSocketCuts(seed uint64, res *Result) {
	r := NewRng(seed).Fork(4200)
	ln, err := net.Listen("tcp", "127.0.0.1:0")
	if err != nil {
		res.Note("tcp listen failed: " + err.Error())
		return
	}
	defer ln.Close()
	for _, kind := range []string{"tcp", "rtuovertcp"} {
		mc, err := modbus.NewClient(&modbus.ClientConfiguration{URL: kind + "://" + ln.Addr().String(), Speed: 10000000, Timeout: 150 * time.Millisecond, Logger: quietLog})
		if err != nil {
			res.Note(err.Error())
			return
		}
		rtu := isRTUKind(kind)
		serve := func(k int, reset bool, full chan bool) {
			c, err := ln.Accept()
			if err != nil {
				full <- false
				return
			}
			buf := make([]byte, 512)
			c.SetReadDeadline(time.Now().Add(2 * time.Second))
			n := 0
			if rtu {
				// the rtu client first discards stale input for 500us, then sends
			}
			n, err = c.Read(buf)
			if err == nil {
				w := parseWire(rtu, buf[:n])
				good := w.frame(w.unit, w.fc, taggedReply(w, 0x0a0b))
				if k > len(good) {
					k = len(good)
				}
				c.Write(good[:k])
				if k == len(good) {
					time.Sleep(20 * time.Millisecond)
				}
				full <- k == len(good)
			} else {
				full <- false
			}
			if reset {
				if tc, ok := c.(*net.TCPConn); ok {
					tc.SetLinger(0)
				}
			}
			c.Close()
		}
		for _, op := range c12Ops(r)[:3] {
			for _, k := range []int{0, 1, 3, 7, 8, 9, 1000} {
				for _, reset := range []bool{false, true} {
					full := make(chan bool, 1)
					go serve(k, reset, full)
					if err := mc.Open(); err != nil {
						res.Note("open failed: " + err.Error())
						continue
					}
					out := op.Exec(mc)
					mc.Close()
					wasFull := <-full
					res.Eval(fmt.Sprintf("real/%s/%s/%d/%v", kind, op.Name, min(k, 10), reset), true, fmt.Sprintf("%s %s cut=%d reset=%v full=%v => %s", kind, op.Line(), k, reset, wasFull, out))
					if !wasFull && strings.HasPrefix(out, "ok:") {
						res.Add(Finding{Kind: "property", Check: "real-cut-accepted", Line: fmt.Sprintf("%s %s cut=%d reset=%v", kind, op.Line(), k, reset), Impl: out, Expect: "an error"})
					}
					if wasFull && !reset && !strings.HasPrefix(out, "ok:") {
						res.Add(Finding{Kind: "property", Check: "real-reopen", Line: fmt.Sprintf("%s %s full reply after Close+Open", kind, op.Line()), Impl: out, Expect: "ok"})
					}
				}
			}
		}
	}
}
