package main

import (
	"fmt"
	"io"
	"net"
	"strings"
	"sync"
	"time"

	"github.com/simonvetter/modbus"
)

// Several connections to ONE real server sharing ONE memory handler (Lean: Multi.runMulti with
// System.memHandler). The harness fixes the schedule: a turn of connection i sends i's next request
// frame and waits for the response (or for the server to hang up). A stalled connection has sent a
// strict prefix of a frame and stays silent; its turns are no-ops. Compared with the model: every
// byte written to every connection, which connections the server closed, and the global order of
// handler calls, each tagged with the connection it came from.

type taggedMem struct {
	*memHandler
	tmu  sync.Mutex
	hmu  sync.Mutex // the server may run two handlers at once; serialised here so that "the call just appended" is well defined
	tags map[string]int
	log  []string
}

func (t *taggedMem) note(addr string) func() {
	// the memory handler appends its own line under its lock; re-tag the line just appended
	return func() {
		t.tmu.Lock()
		defer t.tmu.Unlock()
		i, ok := t.tags[addr]
		tag := fmt.Sprint(i)
		if !ok {
			tag = "?" + addr
		}
		t.memHandler.mu.Lock()
		last := t.memHandler.calls[len(t.memHandler.calls)-1]
		t.memHandler.mu.Unlock()
		t.log = append(t.log, tag+":"+last)
	}
}

func (t *taggedMem) HandleCoils(r *modbus.CoilsRequest) ([]bool, error) {
	t.hmu.Lock()
	defer t.hmu.Unlock()
	defer t.note(r.ClientAddr)()
	return t.memHandler.HandleCoils(r)
}
func (t *taggedMem) HandleDiscreteInputs(r *modbus.DiscreteInputsRequest) ([]bool, error) {
	t.hmu.Lock()
	defer t.hmu.Unlock()
	defer t.note(r.ClientAddr)()
	return t.memHandler.HandleDiscreteInputs(r)
}
func (t *taggedMem) HandleHoldingRegisters(r *modbus.HoldingRegistersRequest) ([]uint16, error) {
	t.hmu.Lock()
	defer t.hmu.Unlock()
	defer t.note(r.ClientAddr)()
	return t.memHandler.HandleHoldingRegisters(r)
}
func (t *taggedMem) HandleInputRegisters(r *modbus.InputRegistersRequest) ([]uint16, error) {
	t.hmu.Lock()
	defer t.hmu.Unlock()
	defer t.note(r.ClientAddr)()
	return t.memHandler.HandleInputRegisters(r)
}

// genMultiFrame: a request frame on a small window of addresses, so that connections see each
// other's writes; some invalid requests (exception responses) and a few frames the server must
// hang up on (protocol id, length field).
func genMultiFrame(r *Rng, txn uint16) (f []byte, fatal bool) {
	addr := []int{0, 1, 2, 3, 5, 8, 0xfffe}[r.Intn(7)]
	unit := byte(1 + r.Intn(3))
	var fc byte
	var pl []byte
	switch r.Intn(12) {
	case 0, 1:
		fc, pl = 3, append(be16b(addr), be16b(1+r.Intn(4))...)
	case 2:
		fc, pl = 1, append(be16b(addr), be16b(1+r.Intn(12))...)
	case 3, 4:
		fc, pl = 6, append(be16b(addr), r.Bytes(2)...)
	case 5:
		fc, pl = 5, append(be16b(addr), []byte{0xff, 0}[r.Intn(2)], 0)
	case 6:
		q := 1 + r.Intn(3)
		fc, pl = 16, append(append(be16b(addr), be16b(q)...), byte(2*q))
		pl = append(pl, r.Bytes(2*q)...)
	case 7:
		q := 1 + r.Intn(10)
		fc, pl = 15, append(append(be16b(addr), be16b(q)...), byte((q+7)/8))
		pl = append(pl, r.Bytes((q+7)/8)...)
	case 8:
		fc, pl = 4, append(be16b(addr), be16b(1+r.Intn(3))...)
	case 9:
		fc, pl = 2, append(be16b(addr), be16b(1+r.Intn(9))...)
	case 10:
		fc, pl = 3, append(be16b(addr), be16b([]int{0, 126, 200}[r.Intn(3)])...) // illegal quantity
	default:
		fc, pl = byte(20+r.Intn(60)), r.Bytes(r.Intn(6)) // unknown function
	}
	f = mbapFrame(txn, 0, unit, fc, pl)
	if r.Chance(1, 25) {
		if r.Bool() {
			f[3] = byte(1 + r.Intn(200))
		} else {
			f[4], f[5] = 0, byte(r.Intn(2))
		}
		fatal = true
	}
	return
}

func multiSessionCheck(tier string, seed uint64, res *Result) error {
	nruns := scale(tier, 40, 600)
	type run struct{ line, impl string }
	out := make([]run, nruns)
	var wg sync.WaitGroup
	sem := make(chan struct{}, 8)
	var firstErr error
	var emu sync.Mutex
	fail := func(err error) {
		emu.Lock()
		if firstErr == nil {
			firstErr = err
		}
		emu.Unlock()
	}
	for ri := 0; ri < nruns; ri++ {
		wg.Add(1)
		sem <- struct{}{}
		go func(ri int) {
			defer wg.Done()
			defer func() { <-sem }()
			r := NewRng(seed).Fork(uint64(11000 + ri))
			h := &taggedMem{memHandler: &memHandler{}, tags: map[string]int{}}
			srv, err := modbus.NewServer(&modbus.ServerConfiguration{URL: "tcp://127.0.0.1:0", Timeout: 5 * time.Second, MaxClients: 8, Logger: quietLog}, h)
			if err != nil {
				fail(err)
				return
			}
			if err := srv.Start(); err != nil {
				fail(err)
				return
			}
			defer srv.Stop()
			n := 2 + r.Intn(3)
			conns := make([]net.Conn, n)
			frames := make([][][]byte, n)
			stalled := -1
			if r.Chance(1, 2) {
				stalled = r.Intn(n)
			}
			inputs := make([][]byte, n)
			for i := 0; i < n; i++ {
				c, err := net.Dial("tcp", srv.VerifListenAddr().String())
				if err != nil {
					fail(err)
					return
				}
				defer c.Close()
				conns[i] = c
				h.tmu.Lock()
				h.tags[c.LocalAddr().String()] = i
				h.tmu.Unlock()
				if i == stalled {
					f, fatal := genMultiFrame(r, uint16(100*i))
					for fatal {
						f, fatal = genMultiFrame(r, uint16(100*i))
					}
					k := 1 + r.Intn(len(f)-1)
					inputs[i] = f[:k]
					c.Write(f[:k]) // a strict prefix, then silence
					continue
				}
				for k := 0; k < 1+r.Intn(5); k++ {
					f, _ := genMultiFrame(r, uint16(100*i+k))
					frames[i] = append(frames[i], f)
					inputs[i] = append(inputs[i], f...)
				}
			}
			var sched []int
			total := 0
			for i := range frames {
				total += len(frames[i])
			}
			for k := 0; k < total+3; k++ {
				sched = append(sched, r.Intn(n))
			}
			next := make([]int, n)
			dead := make([]bool, n)
			outs := make([][]byte, n)
			for _, i := range sched {
				if i == stalled || dead[i] || next[i] >= len(frames[i]) {
					continue
				}
				c := conns[i]
				if _, err := c.Write(frames[i][next[i]]); err != nil {
					dead[i] = true
					continue
				}
				next[i]++
				c.SetReadDeadline(time.Now().Add(3 * time.Second))
				hdr := make([]byte, 7)
				if _, err := io.ReadFull(c, hdr); err != nil {
					if ne, ok := err.(net.Error); ok && ne.Timeout() {
						fail(fmt.Errorf("multi: no response and no hang-up within 3 s on connection %d", i))
						return
					}
					dead[i] = true
					continue
				}
				l := int(hdr[4])<<8 | int(hdr[5])
				if l < 1 {
					l = 1
				}
				body := make([]byte, l-1)
				if _, err := io.ReadFull(c, body); err != nil {
					fail(fmt.Errorf("multi: truncated response on connection %d", i))
					return
				}
				outs[i] = append(append(outs[i], hdr...), body...)
			}
			// the stalled connection must still be open and must have received nothing
			if stalled >= 0 {
				c := conns[stalled]
				c.SetReadDeadline(time.Now().Add(20 * time.Millisecond))
				b := make([]byte, 16)
				if k, err := c.Read(b); k > 0 {
					outs[stalled] = append(outs[stalled], b[:k]...)
				} else if ne, ok := err.(net.Error); !ok || !ne.Timeout() {
					dead[stalled] = true
				}
			}
			var parts, cs, ss []string
			for i := 0; i < n; i++ {
				parts = append(parts, fmt.Sprintf("out%d=%s live%d=%d", i, hx(outs[i]), i, b2i(!dead[i])))
				cs = append(cs, hx(inputs[i])+"/none")
			}
			for _, i := range sched {
				ss = append(ss, fmt.Sprint(i))
			}
			h.tmu.Lock()
			calls := "-"
			if len(h.log) > 0 {
				calls = strings.Join(h.log, ";")
			}
			h.tmu.Unlock()
			out[ri] = run{"multi " + strings.Join(ss, ",") + " " + strings.Join(cs, " "), strings.Join(parts, " ") + " calls=" + calls}
			res.Eval(fmt.Sprintf("multi/n%d/stalled%v/calls%d", n, stalled >= 0, min(strings.Count(calls, "call:"), 6)), true, out[ri].line+" => "+shorten(out[ri].impl, 120))
			res.Count(fmt.Sprintf("multi-conns:%d", n))
			// property oracles that need no model: replies only on the connection of the request
			for i := 0; i < n; i++ {
				got := outs[i]
				k := 0
				for len(got) >= 7 {
					l := int(got[4])<<8 | int(got[5])
					if k >= len(frames[i]) || got[0] != frames[i][k][0] || got[1] != frames[i][k][1] {
						res.Add(Finding{Kind: "property", Check: "reply-routing", Line: out[ri].line, Impl: fmt.Sprintf("connection %d received %s", i, hx(outs[i])), Expect: "only replies carrying the transaction ids of its own requests, in order",
							Note: "a reply was written to a connection other than the one its request arrived on (transaction ids are unique per connection in this run)"})
						break
					}
					got = got[min(6+l, len(got)):]
					k++
				}
			}
			if stalled >= 0 && (dead[stalled] || len(outs[stalled]) > 0) {
				res.Add(Finding{Kind: "property", Check: "stalled-untouched", Line: out[ri].line, Impl: out[ri].impl, Expect: "the stalled connection stays open and silent"})
			}
		}(ri)
	}
	wg.Wait()
	if firstErr != nil {
		res.Add(Finding{Kind: "property", Check: "multi-progress", Line: "multi-session run", Impl: firstErr.Error(), Expect: "every complete request is answered (or the connection closed) although other connections are stalled or busy"})
	}
	var lines []string
	var rs []run
	for _, x := range out {
		if x.line != "" {
			lines = append(lines, x.line)
			rs = append(rs, x)
		}
	}
	mo, err := runModel(lines)
	if err != nil {
		return err
	}
	for i, x := range rs {
		if mo[i] != x.impl {
			res.Add(Finding{Kind: "correspondence", Check: "multi", Line: x.line, Impl: x.impl, Expect: mo[i], Note: "several sessions on one server differ from Multi.runMulti"})
		}
	}
	return nil
}
