package main

import (
	"crypto/tls"
	"crypto/x509"
	"fmt"
	"io"
	"log"
	"strings"
	"sync"
	"time"

	"github.com/simonvetter/modbus"
)

var quietLog = log.New(io.Discard, "", 0)

var scriptedKinds = []string{"tcp", "tcp+tls", "rtuovertcp", "rtu"}

func isRTUKind(k string) bool { return strings.HasPrefix(k, "rtu") }

// newScriptedClient builds a real client of the given scheme on a scripted connection.
func newScriptedClient(kind string) (*modbus.ModbusClient, *ScriptConn, error) {
	conn := NewScriptConn()
	conf := &modbus.ClientConfiguration{
		URL:     kind + "://scripted",
		Speed:   10000000, // keeps the RTU inter-frame sleeps short (t1 = 1.1us, t3.5 = 1.75ms)
		Timeout: 200 * time.Millisecond,
		Logger:  quietLog,
	}
	if kind == "tcp+tls" {
		conf.TLSClientCert = &tls.Certificate{}
		conf.TLSRootCAs = x509.NewCertPool()
	}
	mc, err := modbus.VerifNewClientOnConn(conf, conn)
	return mc, conn, err
}

// mutateReply returns the byte stream the scripted peer sends in answer to req
// (a mutation of the valid reply) and a label for the histogram.
func mutateReply(r *Rng, w wireReq) ([]byte, string) {
	valid := validReplyPayload(r, w.fc, w.payload)
	good := w.frame(w.unit, w.fc, valid)
	pick := r.Intn(24)
	switch {
	case pick < 6:
		return good, "valid"
	case pick == 6: // exception from the addressed unit, all codes
		code := byte(r.Intn(256))
		if r.Chance(2, 3) {
			code = byte(r.Intn(13))
		}
		return w.frame(w.unit, w.fc|0x80, []byte{code}), "exception"
	case pick == 7: // exception from the gateway unit or a foreign unit
		u := byte(0xff)
		if r.Chance(1, 3) {
			u = byte(r.U64())
		}
		return w.frame(u, w.fc|0x80, []byte{byte(1 + r.Intn(11))}), "exception-gw"
	case pick == 8: // exception with wrong payload length
		return w.frame(w.unit, w.fc|0x80, r.Bytes(r.Intn(4))), "exception-len"
	case pick == 9: // foreign unit id
		return w.frame(byte(r.U64()), w.fc, valid), "unit"
	case pick == 10: // other function code (all 256)
		return w.frame(w.unit, byte(r.U64()), valid), "fc"
	case pick == 11: // payload field corruption with a correct frame around it
		if len(valid) == 0 {
			return good, "valid"
		}
		p := append([]byte(nil), valid...)
		i := r.Intn(len(p))
		if r.Chance(1, 2) && len(p) > 0 {
			i = r.Intn(min(len(p), 4))
		}
		p[i] ^= byte(1 << uint(r.Intn(8)))
		return w.frame(w.unit, w.fc, p), "payload-bit"
	case pick == 12: // payload one byte longer / shorter, frame consistent
		p := append([]byte(nil), valid...)
		if r.Bool() || len(p) == 0 {
			p = append(p, byte(r.U64()))
		} else {
			p = p[:len(p)-1]
		}
		return w.frame(w.unit, w.fc, p), "payload-len"
	case pick == 13: // byte count changed, data kept
		if len(valid) == 0 {
			return good, "valid"
		}
		p := append([]byte(nil), valid...)
		p[0] += byte(1 + r.Intn(3))
		return w.frame(w.unit, w.fc, p), "bytecount"
	case pick == 14: // raw single bit flip anywhere in the frame (CRC / header not repaired)
		f := append([]byte(nil), good...)
		i := r.Intn(len(f))
		f[i] ^= byte(1 << uint(r.Intn(8)))
		return f, "bitflip"
	case pick == 15: // truncation at every offset
		return good[:r.Intn(len(good))], "truncated"
	case pick == 16: // extension
		return append(append([]byte(nil), good...), r.Bytes(1+r.Intn(8))...), "extended"
	case pick == 17: // foreign frames in front (stale transaction ids / foreign protocol)
		var pre []byte
		for i := 0; i < 1+r.Intn(3); i++ {
			if w.rtu {
				pre = append(pre, rtuFrame(w.unit, w.fc, validReplyPayload(r, w.fc, w.payload))...)
			} else if r.Bool() {
				pre = append(pre, mbapFrame(w.txn-uint16(1+r.Intn(3)), 0, w.unit, w.fc, valid)...)
			} else {
				pre = append(pre, mbapFrame(w.txn, uint16(1+r.Intn(65535)), w.unit, w.fc, valid)...)
			}
		}
		if r.Chance(1, 4) {
			return pre, "foreign-only"
		}
		return append(pre, good...), "foreign-then-valid"
	case pick == 18: // header corruption (MBAP: length / protocol / txn; RTU: crc bytes)
		f := append([]byte(nil), good...)
		if w.rtu {
			f[len(f)-1-r.Intn(2)] ^= byte(1 + r.Intn(255))
			return f, "crc"
		}
		switch r.Intn(3) {
		case 0:
			f[r.Intn(2)] ^= byte(1 + r.Intn(255))
			return f, "txn"
		case 1:
			f[2+r.Intn(2)] ^= byte(1 + r.Intn(255))
			return f, "proto"
		default:
			n := pickInt(r, []int{0, 1, 2, 254, 255, 256, 300, 65535, len(valid) + 1, len(valid) + 3})
			f[4], f[5] = byte(n>>8), byte(n)
			return f, "length"
		}
	case pick == 19:
		return r.Bytes(r.Intn(40)), "random"
	case pick == 20:
		return nil, "silence"
	case pick == 21: // reply to a neighbouring request (address / quantity echo off by one)
		p := append([]byte(nil), w.payload...)
		if len(p) >= 4 {
			p[r.Intn(4)] ^= byte(1 << uint(r.Intn(3)))
		}
		return w.frame(w.unit, w.fc, validReplyPayload(r, w.fc, p)), "neighbour"
	case pick == 22: // two valid replies back to back
		return append(append([]byte(nil), good...), good...), "double"
	default:
		return good, "valid"
	}
}

func min(a, b int) int {
	if a < b {
		return a
	}
	return b
}

type cexCase struct {
	line  string
	impl  string
	label string
	key   string
}

// runClientCases runs n generated exchanges per worker on real clients over scripted
// connections and returns the (model line, implementation output) pairs.
func runClientCases(seed uint64, n int, workers int, big bool, res *Result) []cexCase {
	var mu sync.Mutex
	var all []cexCase
	var wg sync.WaitGroup
	for wi := 0; wi < workers; wi++ {
		wg.Add(1)
		go func(wi int) {
			defer wg.Done()
			r := NewRng(seed).Fork(uint64(wi))
			kind := scriptedKinds[wi%len(scriptedKinds)]
			mc, conn, err := newScriptedClient(kind)
			if err != nil {
				res.Note("client creation failed: " + err.Error())
				return
			}
			var local []cexCase
			unit, e, w := byte(1), uint(1), uint(1)
			for i := 0; i < n; i++ {
				if r.Chance(1, 4) {
					unit = byte(r.U64())
					mc.SetUnitId(unit)
				}
				if r.Chance(1, 3) {
					e, w = uint(1+r.Intn(2)), uint(1+r.Intn(2))
					mc.SetEncoding(modbus.Endianness(e), modbus.WordOrder(w))
				}
				if r.Chance(1, 12) {
					// a refused SetEncoding (one valid, one invalid selector, or both invalid) must leave the
					// configured encoding untouched: the tracked (e, w) stay as they are
					be, bw := uint(1+r.Intn(2)), uint(pickInt(r, []int{0, 3, 7}))
					if r.Bool() {
						be, bw = uint(pickInt(r, []int{0, 3, 9})), uint(1+r.Intn(2))
					}
					if err := mc.SetEncoding(modbus.Endianness(be), modbus.WordOrder(bw)); err == nil {
						res.Add(Finding{Kind: "property", Check: "setencoding", Line: fmt.Sprintf("SetEncoding(%d,%d)", be, bw), Impl: "nil", Expect: "ErrUnexpectedParameters"})
					}
					res.Count("refused-setencoding")
				}
				op := genOp(r, big && r.Chance(1, 6))
				if r.Chance(3, 4) {
					conn.Arm(nil, "timeout")
				}
				pendBefore := conn.Pending()
				ending := "timeout"
				switch r.Intn(8) {
				case 0:
					ending = "eof"
				case 1:
					ending = "reset"
				}
				conn.Arm([][]byte{pendBefore}, ending)
				txnBefore := 0
				if !isRTUKind(kind) {
					txnBefore = mc.VerifConfig().LastTxnId
				}
				var arrivals []byte
				label := "no-request"
				cr := r.Fork(uint64(i))
				conn.OnWrite = func(b []byte) {
					wr := parseWire(isRTUKind(kind), b)
					if !wr.ok {
						label = "unparsable-request"
						return
					}
					var reply []byte
					reply, label = mutateReply(cr, wr)
					arrivals = append(arrivals, reply...)
					conn.Feed(randomChunks(cr, reply)...)
				}
				conn.TakeWritten()
				out := op.Exec(mc)
				conn.OnWrite = nil
				written := conn.TakeWritten()
				ws := "none"
				if len(written) > 0 {
					parts := make([]string, len(written))
					for j, x := range written {
						parts[j] = hx(x)
					}
					ws = strings.Join(parts, "|")
				}
				txnAfter := 0
				if !isRTUKind(kind) {
					txnAfter = mc.VerifConfig().LastTxnId
				}
				impl := fmt.Sprintf("w=%s r=%s txn=%d pend=%s", ws, out, txnAfter, hx(conn.Pending()))
				line := fmt.Sprintf("cex %s %d %d %d %d %s %s %s %s", kind, unit, e, w, txnBefore,
					hx(pendBefore), hx(arrivals), ending, op.Line())
				outClass := out
				if strings.HasPrefix(out, "ok:") {
					outClass = "ok"
				}
				local = append(local, cexCase{line: line, impl: impl, label: label,
					key: kind + "/" + op.Name + "/" + label + "/" + outClass})
			}
			mu.Lock()
			all = append(all, local...)
			mu.Unlock()
		}(wi)
	}
	wg.Wait()
	return all
}

func shorten(s string, n int) string {
	if len(s) > n {
		return s[:n] + "…"
	}
	return s
}

// projC02 keeps what property C02 speaks about: a success with its values, the specific error of a
// well-formed exception reply, request-timed-out; every other error is just "an error".
func projC02(out string) string {
	r := field(out, "r")
	switch {
	case strings.HasPrefix(r, "ok:"), r == "panic":
		return r
	case r == "err:ErrIllegalFunction", r == "err:ErrIllegalDataAddress", r == "err:ErrIllegalDataValue",
		r == "err:ErrServerDeviceFailure", r == "err:ErrAcknowledge", r == "err:ErrServerDeviceBusy",
		r == "err:ErrMemoryParityError", r == "err:ErrGWPathUnavailable", r == "err:ErrGWTargetFailedToRespond",
		strings.HasPrefix(r, "err:unknown-exception"), r == "err:ErrRequestTimedOut", r == "err:ErrUnexpectedParameters":
		return r
	}
	return "err"
}

// compareWithModel pipes the lines through mbmodel and records disagreements. The model's outcome
// is the property's verdict (theorems C02_sound/complete/exception/total relate it to Spec.Reply), so
// a difference in the C02-relevant projection is a property failure, any other difference a
// correspondence failure.
func compareWithModel(check string, cases []cexCase, res *Result) error {
	lines := make([]string, len(cases))
	for i, c := range cases {
		lines[i] = c.line
	}
	outs, err := runModel(lines)
	if err != nil {
		return err
	}
	for i, c := range cases {
		res.Count("reply:" + c.label)
		res.Eval(c.key, true, shorten(c.line, 300)+" => "+shorten(c.impl, 300))
		if outs[i] != c.impl {
			kind := "correspondence"
			note := ""
			if projC02(outs[i]) != projC02(c.impl) {
				kind = "property"
				note = "outcome differs from the verified model: expected " + shorten(projC02(outs[i]), 80) + ", got " + shorten(projC02(c.impl), 80) + " (reply class: " + c.label + ")"
			}
			res.Add(Finding{Kind: kind, Check: check, Line: c.line, Impl: c.impl, Expect: outs[i], Note: note})
		}
	}
	return nil
}
