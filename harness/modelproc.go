package main

import (
	"bufio"
	"fmt"
	"io"
	"os/exec"
	"strings"
	"sync"
)

// ModelProc is a long-running mbmodel process used interactively (one line in, one line out).
type ModelProc struct {
	mu  sync.Mutex
	cmd *exec.Cmd
	in  io.WriteCloser
	out *bufio.Reader
}

func StartModel() (*ModelProc, error) {
	cmd := exec.Command(modelPath)
	in, err := cmd.StdinPipe()
	if err != nil {
		return nil, err
	}
	out, err := cmd.StdoutPipe()
	if err != nil {
		return nil, err
	}
	if err := cmd.Start(); err != nil {
		return nil, err
	}
	return &ModelProc{cmd: cmd, in: in, out: bufio.NewReaderSize(out, 1<<20)}, nil
}

func (m *ModelProc) Ask(line string) (string, error) {
	m.mu.Lock()
	defer m.mu.Unlock()
	if _, err := fmt.Fprintln(m.in, line); err != nil {
		return "", err
	}
	s, err := m.out.ReadString('\n')
	return strings.TrimRight(s, "\n"), err
}

func (m *ModelProc) Close() {
	m.in.Close()
	m.cmd.Wait()
}
