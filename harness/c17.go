package main

import (
	"fmt"
	"strings"

	"github.com/simonvetter/modbus"
)

func guard(f func() string) (out string) {
	defer func() {
		if r := recover(); r != nil {
			out = "panic"
		}
	}()
	return f()
}

type kv struct{ line, impl, key string }

// compareLines: impl vs model output; if the model line carries " spec=<x>" the part before is the
// model (correspondence) and <x> the reference layout (property).
func compareLines(check string, cases []kv, res *Result) error {
	lines := make([]string, len(cases))
	for i, c := range cases {
		lines[i] = c.line
	}
	outs, err := runModel(lines)
	if err != nil {
		return err
	}
	for i, c := range cases {
		model, spec := outs[i], ""
		if j := strings.Index(model, " spec="); j >= 0 {
			model, spec = outs[i][:j], outs[i][j+6:]
		}
		res.Eval(c.key, true, c.line+" => "+shorten(c.impl, 120))
		if spec != "" && spec != c.impl && !strings.Contains(c.key, "invalid") {
			res.Add(Finding{Kind: "property", Check: check, Line: c.line, Impl: c.impl, Expect: spec, Note: "differs from the reference layout"})
		} else if model != c.impl {
			res.Add(Finding{Kind: "correspondence", Check: check, Line: c.line, Impl: c.impl, Expect: model})
		}
	}
	return nil
}

func selKey(e, w uint) string {
	if e < 1 || e > 2 || w < 1 || w > 2 {
		return "invalid"
	}
	return fmt.Sprintf("e%dw%d", e, w)
}

func init() {
	checks["C17"] = func(tier string, seed uint64, res *Result) error {
		res.Rule = "codec pass-throughs vs Lean model and reference layout: all 2^16 values x both byte orders (encode, decode round trip), 32/64-bit: per-byte-position exhaustion over 4 backgrounds + special (NaN payloads, signed zero, infinities, subnormals) + random values x 4 settings (+ invalid selectors), bool vectors of every length 0..2000 plus random, decode panics on short input; distinct = (function, setting, value class)"
		r := NewRng(seed)
		var cs []kv
		// 16-bit exhaustive
		for _, e := range []uint{1, 2} {
			for v := 0; v < 65536; v++ {
				b := modbus.VerifUint16ToBytes(modbus.Endianness(e), uint16(v))
				cs = append(cs, kv{fmt.Sprintf("enc16 %d %d", e, v), hx(b), fmt.Sprintf("enc16/e%d/%d", e, v>>12)})
				if back := modbus.VerifBytesToUint16(modbus.Endianness(e), b); back != uint16(v) {
					res.Add(Finding{Kind: "property", Check: "roundtrip16", Line: fmt.Sprintf("enc16 %d %d", e, v), Impl: fmt.Sprint(back), Expect: fmt.Sprint(v)})
				}
			}
		}
		res.Exhaustive = true
		for _, e := range []uint{0, 3} {
			for _, v := range []int{0, 1, 0x1234, 0xffff} {
				cs = append(cs, kv{fmt.Sprintf("enc16 %d %d", e, v), hx(modbus.VerifUint16ToBytes(modbus.Endianness(e), uint16(v))), "enc16/invalid"})
			}
		}
		// 32/64-bit values
		var v32 []uint32
		var v64 []uint64
		for _, bg := range []uint64{0, 0xffffffffffffffff, 0x0123456789abcdef, 0xa5a5a5a5a5a5a5a5} {
			for pos := 0; pos < 8; pos++ {
				for b := 0; b < 256; b++ {
					v := bg&^(0xff<<(8*uint(pos))) | uint64(b)<<(8*uint(pos))
					v64 = append(v64, v)
					if pos < 4 {
						v32 = append(v32, uint32(v))
					}
				}
			}
		}
		v32 = append(v32, special32...)
		v64 = append(v64, special64...)
		nr := scale(tier, 20000, 400000)
		for i := 0; i < nr; i++ {
			v32 = append(v32, uint32(r.U64()))
			v64 = append(v64, r.U64())
		}
		sels := [][2]uint{{1, 1}, {1, 2}, {2, 1}, {2, 2}, {0, 1}, {3, 2}, {1, 0}, {2, 3}, {1, 3}, {2, 0}}
		for i, v := range v32 {
			s := sels[i%4]
			if i%97 == 0 {
				s = sels[4+i%6]
			}
			e, w := modbus.Endianness(s[0]), modbus.WordOrder(s[1])
			b := modbus.VerifUint32ToBytes(e, w, v)
			cs = append(cs, kv{fmt.Sprintf("enc32 %d %d %d", s[0], s[1], v), hx(b), "enc32/" + selKey(s[0], s[1]) + fmt.Sprintf("/%d", v>>28)})
			back := guard(func() string { return hexU32s(modbus.VerifBytesToUint32s(e, w, b)) })
			cs = append(cs, kv{fmt.Sprintf("dec32s %d %d %s", s[0], s[1], hx(b)), back, "dec32/" + selKey(s[0], s[1])})
			if selKey(s[0], s[1]) != "invalid" && back != fmt.Sprintf("%08x", v) {
				res.Add(Finding{Kind: "property", Check: "roundtrip32", Line: fmt.Sprintf("enc32 %d %d %d", s[0], s[1], v), Impl: back, Expect: fmt.Sprintf("%08x", v)})
			}
			// float path: bit patterns must survive
			fb := modbus.VerifFloat32ToBytes(e, w, f32s([]uint32{v})[0])
			if hx(fb) != hx(b) {
				res.Add(Finding{Kind: "property", Check: "float32bits", Line: fmt.Sprintf("enc32 %d %d %d", s[0], s[1], v), Impl: hx(fb), Expect: hx(b), Note: "float32 encoding differs from the uint32 encoding of its bit pattern"})
			}
			if fr := guard(func() string { return hexU32s(bits32(modbus.VerifBytesToFloat32s(e, w, b))) }); fr != back {
				res.Add(Finding{Kind: "property", Check: "float32bits", Line: fmt.Sprintf("dec32s %d %d %s", s[0], s[1], hx(b)), Impl: fr, Expect: back})
			}
		}
		for i, v := range v64 {
			s := sels[i%4]
			if i%97 == 0 {
				s = sels[4+i%6]
			}
			e, w := modbus.Endianness(s[0]), modbus.WordOrder(s[1])
			b := modbus.VerifUint64ToBytes(e, w, v)
			cs = append(cs, kv{fmt.Sprintf("enc64 %d %d %d", s[0], s[1], v), hx(b), "enc64/" + selKey(s[0], s[1]) + fmt.Sprintf("/%d", v>>60)})
			back := guard(func() string { return hexU64s(modbus.VerifBytesToUint64s(e, w, b)) })
			cs = append(cs, kv{fmt.Sprintf("dec64s %d %d %s", s[0], s[1], hx(b)), back, "dec64/" + selKey(s[0], s[1])})
			if selKey(s[0], s[1]) != "invalid" && back != fmt.Sprintf("%016x", v) {
				res.Add(Finding{Kind: "property", Check: "roundtrip64", Line: fmt.Sprintf("enc64 %d %d %d", s[0], s[1], v), Impl: back, Expect: fmt.Sprintf("%016x", v)})
			}
			fb := modbus.VerifFloat64ToBytes(e, w, f64s([]uint64{v})[0])
			if hx(fb) != hx(b) {
				res.Add(Finding{Kind: "property", Check: "float64bits", Line: fmt.Sprintf("enc64 %d %d %d", s[0], s[1], v), Impl: hx(fb), Expect: hx(b)})
			}
			if fr := guard(func() string { return hexU64s(bits64(modbus.VerifBytesToFloat64s(e, w, b))) }); fr != back {
				res.Add(Finding{Kind: "property", Check: "float64bits", Line: fmt.Sprintf("dec64s %d %d %s", s[0], s[1], hx(b)), Impl: fr, Expect: back})
			}
		}
		// multi-value decode lists
		for i := 0; i < 400; i++ {
			n := r.Intn(20)
			e, w := uint(1+r.Intn(2)), uint(1+r.Intn(2))
			b := r.Bytes(8 * n)
			cs = append(cs, kv{fmt.Sprintf("dec16s %d %s", e, hx(b)), guard(func() string { return hexU16s(modbus.VerifBytesToUint16s(modbus.Endianness(e), b)) }), fmt.Sprintf("dec16s/%d", n%5)})
			cs = append(cs, kv{fmt.Sprintf("dec32s %d %d %s", e, w, hx(b)), guard(func() string { return hexU32s(modbus.VerifBytesToUint32s(modbus.Endianness(e), modbus.WordOrder(w), b)) }), fmt.Sprintf("dec32s/%d", n%5)})
			cs = append(cs, kv{fmt.Sprintf("dec64s %d %d %s", e, w, hx(b)), guard(func() string { return hexU64s(modbus.VerifBytesToUint64s(modbus.Endianness(e), modbus.WordOrder(w), b)) }), fmt.Sprintf("dec64s/%d", n%5)})
		}
		// bools: every length 0..2000 (structured), random
		for n := 0; n <= 2000; n++ {
			l := make([]bool, n)
			for i := range l {
				switch n % 4 {
				case 0:
					l[i] = r.Bool()
				case 1:
					l[i] = true
				case 2:
					l[i] = i%8 == n%8
				case 3:
					l[i] = i == n-1
				}
			}
			enc := modbus.VerifEncodeBools(l)
			cs = append(cs, kv{"encbools " + bitsStr(l), hx(enc), fmt.Sprintf("encbools/%d/%d", n%8, n%4)})
			dec := guard(func() string { return bitsStr(modbus.VerifDecodeBools(uint16(n), enc)) })
			cs = append(cs, kv{fmt.Sprintf("decbools %d %s", n, hx(enc)), dec, fmt.Sprintf("decbools/%d", n%8)})
			if dec != bitsStr(l) {
				res.Add(Finding{Kind: "property", Check: "roundtripbools", Line: "encbools " + bitsStr(l), Impl: dec, Expect: bitsStr(l)})
			}
			if n%50 == 3 { // short input: decode must panic exactly when bytes are missing
				short := enc[:len(enc)-1]
				cs = append(cs, kv{fmt.Sprintf("decbools %d %s", n, hx(short)), guard(func() string { return bitsStr(modbus.VerifDecodeBools(uint16(n), short)) }), "decbools/short"})
			}
		}
		return compareLines("codec", cs, res)
	}
}
