package main

import (
	"crypto/x509"
	"fmt"
	"io"
	"net"
	"runtime"
	"strconv"
	"strings"
	"sync"
	"time"

	"github.com/simonvetter/modbus"
)

// ---- driving the real server through the verifYield scheduling points ------------------------------

type yieldKey struct{ point, addr string }

type lifeRun struct {
	mu       sync.Mutex
	srv      *modbus.ModbusServer
	h        *lifeHandler
	max      int
	timeout  time.Duration
	arrivals map[yieldKey]bool            // yield points reached and not yet released
	release  map[yieldKey][]chan struct{} // blocked goroutines per yield point (a list: a reused source port gives two connections the same key)
	cond     *sync.Cond
	conns    map[int]net.Conn // model connection id -> client side of the connection
	addrOf   map[int]string
	passthru bool
	steps    []string
	lastReq  map[int]time.Time
}

type lifeHandler struct {
	mu     sync.Mutex
	served map[string]int // by ClientAddr
}

func (h *lifeHandler) hit(a string) {
	h.mu.Lock()
	h.served[a]++
	h.mu.Unlock()
}
func (h *lifeHandler) HandleCoils(r *modbus.CoilsRequest) ([]bool, error) {
	h.hit(r.ClientAddr)
	return make([]bool, r.Quantity), nil
}
func (h *lifeHandler) HandleDiscreteInputs(r *modbus.DiscreteInputsRequest) ([]bool, error) {
	h.hit(r.ClientAddr)
	return make([]bool, r.Quantity), nil
}
func (h *lifeHandler) HandleHoldingRegisters(r *modbus.HoldingRegistersRequest) ([]uint16, error) {
	h.hit(r.ClientAddr)
	return make([]uint16, r.Quantity), nil
}
func (h *lifeHandler) HandleInputRegisters(r *modbus.InputRegistersRequest) ([]uint16, error) {
	h.hit(r.ClientAddr)
	return make([]uint16, r.Quantity), nil
}

func newLifeRun(max int, timeout time.Duration) (*lifeRun, error) {
	lr := &lifeRun{max: max, timeout: timeout, arrivals: map[yieldKey]bool{}, release: map[yieldKey][]chan struct{}{},
		conns: map[int]net.Conn{}, addrOf: map[int]string{}, lastReq: map[int]time.Time{}}
	lr.cond = sync.NewCond(&lr.mu)
	lr.h = &lifeHandler{served: map[string]int{}}
	srv, err := modbus.NewServer(&modbus.ServerConfiguration{URL: "tcp://127.0.0.1:0", Timeout: timeout, MaxClients: uint(max), Logger: quietLog}, lr.h)
	if err != nil {
		return nil, err
	}
	lr.srv = srv
	modbus.VerifSetScheduler(lr.yield)
	return lr, nil
}

// yield is called by the server goroutines at the verifYield points.
func (lr *lifeRun) yield(point string, sock net.Conn) {
	lr.mu.Lock()
	if lr.passthru {
		lr.mu.Unlock()
		return
	}
	k := yieldKey{point, sock.RemoteAddr().String()}
	ch := make(chan struct{})
	lr.arrivals[k] = true
	lr.release[k] = append(lr.release[k], ch)
	lr.cond.Broadcast()
	lr.mu.Unlock()
	<-ch
}

// waitFor blocks until the goroutine handling conn id reached the yield point (or times out).
func (lr *lifeRun) waitFor(point string, id int, d time.Duration) bool {
	k := yieldKey{point, lr.addrOf[id]}
	deadline := time.Now().Add(d)
	lr.mu.Lock()
	defer lr.mu.Unlock()
	for !lr.arrivals[k] {
		if time.Now().After(deadline) {
			return false
		}
		lr.mu.Unlock()
		time.Sleep(200 * time.Microsecond)
		lr.mu.Lock()
	}
	return true
}

func (lr *lifeRun) reached(point string, id int) bool {
	lr.mu.Lock()
	defer lr.mu.Unlock()
	return lr.arrivals[yieldKey{point, lr.addrOf[id]}]
}

func (lr *lifeRun) letGo(point string, id int) bool {
	k := yieldKey{point, lr.addrOf[id]}
	lr.mu.Lock()
	chs := lr.release[k]
	ok := len(chs) > 0
	var ch chan struct{}
	if ok {
		ch = chs[0]
		if len(chs) == 1 {
			delete(lr.release, k)
			delete(lr.arrivals, k)
		} else {
			lr.release[k] = chs[1:]
		}
	}
	lr.mu.Unlock()
	if ok {
		close(ch)
	}
	return ok
}

func (lr *lifeRun) finishAll() {
	lr.mu.Lock()
	lr.passthru = true
	for k, chs := range lr.release {
		for _, ch := range chs {
			close(ch)
		}
		delete(lr.release, k)
	}
	lr.mu.Unlock()
}

var readReq = []byte{0, 1, 0, 0, 0, 6, 1, 3, 0, 0, 0, 1}

// request sends one valid request on the client side of conn id and reports whether a response came.
func (lr *lifeRun) request(id int) bool {
	c := lr.conns[id]
	if c == nil {
		return false
	}
	c.SetDeadline(time.Now().Add(60 * time.Millisecond))
	if _, err := c.Write(readReq); err != nil {
		return false
	}
	buf := make([]byte, 32)
	n, err := io.ReadAtLeast(c, buf, 9)
	lr.lastReq[id] = time.Now()
	return err == nil && n >= 9
}

// peerSeesClosed reports whether the server closed the connection (EOF / reset on the client side).
func (lr *lifeRun) peerSeesClosed(id int, d time.Duration) bool {
	c := lr.conns[id]
	if c == nil {
		return true
	}
	c.SetReadDeadline(time.Now().Add(d))
	buf := make([]byte, 8)
	_, err := c.Read(buf)
	if err == nil {
		return false
	}
	if ne, ok := err.(net.Error); ok && ne.Timeout() {
		return false
	}
	return true
}

// serverGoroutineStacks: the stacks of the goroutines counted by serverGoroutines (diagnosis)
func serverGoroutineStacks() string {
	buf := make([]byte, 1<<20)
	n := runtime.Stack(buf, true)
	var out []string
	for _, g := range strings.Split(string(buf[:n]), "\n\n") {
		if strings.Contains(g, "modbus.(*ModbusServer).acceptTCPClients") || strings.Contains(g, "modbus.(*ModbusServer).handleTCPClient") {
			out = append(out, g)
		}
	}
	return strings.Join(out, " || ")
}

func serverGoroutines() int {
	buf := make([]byte, 1<<20)
	n := runtime.Stack(buf, true)
	cnt := 0
	for _, g := range strings.Split(string(buf[:n]), "\n\n") {
		if strings.Contains(g, "modbus.(*ModbusServer).acceptTCPClients") || strings.Contains(g, "modbus.(*ModbusServer).handleTCPClient") {
			cnt++
		}
	}
	return cnt
}

// ---- model state parsing ---------------------------------------------------------------------------

type lifeState struct {
	raw      string
	started  bool
	open     bool
	clients  []int
	phases   map[int]string
	backlog  []int
	next     []string
	enabled  string
	served   map[int]int
	acceptor string
}

func parseIds(s string) []int {
	if s == "-" || s == "" {
		return nil
	}
	var out []int
	for _, p := range strings.Split(s, ",") {
		if v, err := strconv.Atoi(p); err == nil {
			out = append(out, v)
		}
	}
	return out
}

func parseLife(out string) lifeState {
	st := lifeState{raw: out, phases: map[int]string{}, served: map[int]int{}}
	parts := strings.Split(out, " | ")
	for _, f := range strings.Fields(parts[0]) {
		kv := strings.SplitN(f, "=", 2)
		if len(kv) != 2 {
			continue
		}
		switch kv[0] {
		case "started":
			st.started = kv[1] == "1"
		case "open":
			st.open = kv[1] == "1"
		case "clients":
			st.clients = parseIds(kv[1])
		case "backlog":
			st.backlog = parseIds(kv[1])
		case "acceptors":
			st.acceptor = kv[1]
		case "phases":
			if kv[1] != "-" {
				for _, p := range strings.Split(kv[1], ",") {
					x := strings.SplitN(p, ":", 2)
					if id, err := strconv.Atoi(x[0]); err == nil && len(x) == 2 {
						st.phases[id] = x[1]
					}
				}
			}
		case "served":
			for _, id := range parseIds(kv[1]) {
				st.served[id]++
			}
		}
	}
	for _, p := range parts[1:] {
		if strings.HasPrefix(p, "en=") {
			st.enabled = p[3:]
		}
		if strings.HasPrefix(p, "next=") && len(p) > 5 {
			st.next = strings.Split(p[5:], ";")
		}
	}
	return st
}

// ---- one schedule on both sides ------------------------------------------------------------------------

type lifeOutcome struct {
	steps    []string
	findings []Finding
	classes  []string
}

func (o *lifeOutcome) fail(kind, check, impl, expect, note string) {
	o.findings = append(o.findings, Finding{Kind: kind, Check: check, Line: "life " + strings.Join(o.steps, ";"), Impl: impl, Expect: expect, Note: note})
}

// runLifeSchedule: fixed != nil replays the given steps; otherwise steps are drawn with the model's
// enabled-step list (forced steps first: FIFO accept, acceptor exit, session end after Stop).
func runLifeSchedule(mp *ModelProc, r *Rng, max int, nsteps int, fixed []string) *lifeOutcome {
	o := &lifeOutcome{}
	timeout := 250 * time.Millisecond
	baseG := serverGoroutines() // goroutines that an earlier schedule left behind are reported once, there
	lr, err := newLifeRun(max, timeout)
	if err != nil {
		o.fail("property", "life-setup", err.Error(), "server created", "")
		return o
	}
	defer func() {
		lr.finishAll()
		lr.srv.Stop()
		for _, c := range lr.conns {
			c.Close()
		}
		// every server goroutine must end once Stop returned and sockets are closed. "Eventually":
		// 3 s (sessions end by themselves after the 250 ms idle timeout; the bound only has to
		// separate "still winding down on a loaded machine" from "never ends")
		ok := false
		limit := time.Now().Add(3 * time.Second)
		for time.Now().Before(limit) {
			if serverGoroutines() <= baseG {
				ok = true
				break
			}
			time.Sleep(2 * time.Millisecond)
		}
		if !ok {
			o.fail("property", "goroutine-leak", fmt.Sprintf("%d server goroutines alive 3 s after Stop", serverGoroutines()-baseG), "0", "a server goroutine outlives Stop: "+shorten(serverGoroutineStacks(), 1500))
		}
		modbus.VerifSetScheduler(nil)
	}()
	fresh := 1
	rejected := map[int]bool{}
	admittedAt := map[int]time.Time{}
	ask := func() lifeState {
		out, err := mp.Ask(fmt.Sprintf("life %d %d %s", max, fresh, strings.Join(o.steps, ";")))
		if err != nil {
			o.fail("correspondence", "life-model", err.Error(), "model answers", "")
		}
		return parseLife(out)
	}
	st := ask()
	for i := 0; ; i++ {
		var step string
		if fixed != nil {
			if i >= len(fixed) {
				break
			}
			step = fixed[i]
		} else {
			if i >= nsteps {
				break
			}
			step = pickLifeStep(r, st, fresh)
			if step == "" {
				break
			}
		}
		f := strings.Fields(step)
		id := 0
		if len(f) > 1 {
			id, _ = strconv.Atoi(f[len(f)-1])
			if f[0] == "finish" || f[0] == "accept" {
				id, _ = strconv.Atoi(f[1])
				if f[0] == "accept" {
					id, _ = strconv.Atoi(f[2])
				}
			}
		}
		stale := false
		for cid, ph := range st.phases {
			if ph == "serving" && !(f[0] == "finish" && f[2] == "idle" && cid == id) && time.Since(lr.lastReq[cid]) > timeout/2 {
				stale = true // real time would idle this session out behind the model's back: end the schedule here
			}
		}
		if stale {
			break
		}
		o.steps = append(o.steps, step)
		o.classes = append(o.classes, f[0])
		prev := st
		st = ask()
		enabledNow := strings.HasSuffix(st.enabled, "1")
		// perform the step on the real server
		servedBefore := 0
		switch f[0] {
		case "start":
			if err := lr.srv.Start(); err != nil {
				o.fail("property", "start", err.Error(), "nil", "Start failed")
			}
		case "stop":
			lr.srv.Stop()
		case "arrive":
			fresh++
			if !enabledNow {
				break
			}
			addr := lr.srv.VerifListenAddr()
			if addr == nil {
				break
			}
			c, err := net.DialTimeout("tcp", addr.String(), 300*time.Millisecond)
			if err != nil {
				o.fail("correspondence", "arrive", err.Error(), "connection established (listener open in the model)", "")
				break
			}
			lr.conns[id] = c
			lr.addrOf[id] = c.LocalAddr().String()
		case "accept":
			if enabledNow && !lr.waitFor("accepted", id, time.Second) {
				o.fail("correspondence", "accept", "accept loop did not reach the admission point", "accepted", "")
			}
		case "decide":
			if enabledNow {
				lr.letGo("accepted", id)
				if !lr.waitFor("decided", id, time.Second) {
					o.fail("correspondence", "decide", "admission decision not reached", "decided", "")
				}
			}
		case "launch":
			if enabledNow {
				lr.letGo("decided", id)
				if prev.phases[id] == "rejecting" {
					rejected[id] = true
				} else {
					admittedAt[id] = time.Now()
					lr.lastReq[id] = time.Now()
					time.Sleep(300 * time.Microsecond) // let the session goroutine arm its first read deadline
				}
			}
		case "request":
			if lr.conns[id] == nil {
				break
			}
			got := lr.request(id)
			want := st.served[id] > prev.served[id]
			if got != want {
				o.fail("correspondence", "request", fmt.Sprint("served=", got), fmt.Sprint("served=", want), "")
			}
			if got && rejected[id] {
				o.fail("property", "rejected-served", "a request on a rejected connection reached a handler", "not served", "")
			}
			if got && !prev.started && prev.phases[id] != "serving" {
				o.fail("property", "served-after-stop", "request served although the server is stopped", "not served", "")
			}
			_ = servedBefore
		case "finish":
			if !enabledNow {
				break
			}
			switch f[2] {
			case "peer":
				lr.conns[id].Close()
			case "proto":
				lr.conns[id].Write([]byte{0, 1, 0, 0, 0, 6, 1, 3, 0, 0, 0, 0}) // quantity 0: protocol error
			case "idle":
				// nothing to do: wait for the idle timeout below
			case "stop":
			}
			t0 := time.Now()
			if !lr.waitFor("finished", id, 2*time.Second) {
				if f[2] == "idle" {
					// the property itself: a served client that stays idle for the timeout releases its slot
					o.fail("property", "idle-not-released", "session still running 2 s after going idle (timeout "+fmt.Sprint(timeout)+")", "finished", "an idle served client was not dropped after the configured timeout")
				} else {
					o.fail("correspondence", "finish", "session did not end ("+f[2]+")", "finished", "")
				}
			}
			if f[2] == "idle" {
				el := time.Since(lr.lastReq[id])
				if el+2*time.Millisecond < timeout {
					o.fail("property", "idle-early", fmt.Sprint(el), ">= "+fmt.Sprint(timeout), "idle session dropped earlier than the configured timeout")
				}
				_ = t0
			}
		case "remove":
			if enabledNow {
				lr.letGo("finished", id)
				if !lr.waitFor("removed", id, time.Second) {
					o.fail("correspondence", "remove", "removal not reached", "removed", "")
				}
			}
		case "close":
			if enabledNow {
				lr.letGo("removed", id)
			}
		case "exit":
		}
		// compare the observable state
		started, n := lr.srv.VerifSnapshot()
		diverged := false
		// the registry itself: same connections in the same order as the model's list
		{
			var want []string
			for _, cid := range st.clients {
				want = append(want, lr.addrOf[cid])
			}
			got := lr.srv.VerifClientAddrs()
			if n == len(st.clients) && strings.Join(got, ",") != strings.Join(want, ",") {
				o.fail("correspondence", "registry", strings.Join(got, ","), strings.Join(want, ","), "after step "+step)
				// model-independent: every registered entry must be a connection that was admitted and not yet removed
				seen := map[string]int{}
				for _, a := range got {
					seen[a]++
				}
				for a, k := range seen {
					if k > 1 {
						o.fail("property", "registry-duplicate", a+" registered "+fmt.Sprint(k)+" times", "each served connection registered once", "a finished connection's removal damaged the list of served connections: a slot is lost")
					}
				}
				return o
			}
		}
		if started != st.started || n != len(st.clients) {
			o.fail("correspondence", "snapshot", fmt.Sprintf("started=%v clients=%d", started, n), fmt.Sprintf("started=%v clients=%d (%s)", st.started, len(st.clients), st.raw), "after step "+step)
			diverged = true
		}
		// property oracles that do not depend on the model
		if n > max {
			o.fail("property", "bound", fmt.Sprintf("%d registered connections", n), fmt.Sprintf("<= %d", max), "more than MaxClients connections registered")
		}
		if f[0] == "decide" && enabledNow {
			// quiescent admission rule: no session in a transitional phase => admitted iff started and serving < max
			serving, transitional := 0, false
			for cid, ph := range prev.phases {
				if cid == id {
					continue
				}
				switch ph {
				case "serving":
					serving++
				case "admitted", "finished":
					transitional = true
				}
			}
			if !transitional {
				admitted := st.phases[id] == "admitted"
				want := started && serving < max
				realAdmitted := n == len(prev.clients)+1
				if realAdmitted != want {
					o.fail("property", "admission", fmt.Sprintf("admitted=%v", realAdmitted), fmt.Sprintf("admitted=%v (started=%v, serving=%d, max=%d)", want, started, serving, max), "admission decision differs from the limit rule")
				}
				_ = admitted
			}
		}
		if f[0] == "launch" && enabledNow && rejected[id] {
			if !lr.peerSeesClosed(id, 300*time.Millisecond) {
				o.fail("property", "rejected-not-closed", "connection still open", "closed by the server", "a connection over the limit must be closed")
			}
		}
		if diverged {
			// the implementation left the model: probe the property directly on this connection, then stop
			if id != 0 && lr.conns[id] != nil && (f[0] == "decide" || f[0] == "launch") {
				if f[0] == "decide" {
					lr.letGo("decided", id)
					time.Sleep(2 * time.Millisecond)
				}
				if !started && lr.request(id) {
					o.fail("property", "served-after-stop", fmt.Sprintf("connection %d was served although the server is stopped", id), "not served", "a connection that was being accepted while Stop ran reached a handler afterwards")
				}
			}
			return o
		}
		if f[0] == "stop" {
			// listener closed; every registered connection closed
			if a := lr.srv.VerifListenAddr(); a != nil {
				if c, err := net.DialTimeout("tcp", a.String(), 100*time.Millisecond); err == nil {
					// a connection to a closed listener must not be established
					c.Close()
					if prev.started {
						o.fail("property", "stop-listener", "listener still accepts connections after Stop returned", "connection refused", "")
					}
				}
			}
			for _, cid := range prev.clients {
				if prev.phases[cid] == "serving" && !lr.peerSeesClosed(cid, 300*time.Millisecond) {
					o.fail("property", "stop-clients", fmt.Sprintf("connection %d still open after Stop returned", cid), "closed", "")
				}
			}
		}
	}
	return o
}

// pickLifeStep chooses the next step: forced ones first, then a weighted random enabled step.
func pickLifeStep(r *Rng, st lifeState, fresh int) string {
	var cands []string
	for _, s := range st.next {
		f := strings.Fields(s)
		switch f[0] {
		case "exit":
			return s
		case "accept":
			if len(st.backlog) > 0 && f[2] == strconv.Itoa(st.backlog[0]) {
				return s // the accept loop takes the head of the backlog as soon as it is idle
			}
		case "finish":
			if f[2] == "stop" {
				return s // a session whose socket was closed by Stop ends at once
			}
		}
	}
	for _, s := range st.next {
		f := strings.Fields(s)
		w := 4
		switch f[0] {
		case "accept", "exit":
			continue
		case "start":
			w = 1
			if !st.started {
				w = 6
			}
		case "stop":
			w = 1
		case "arrive":
			w = 6
			if fresh > 9 {
				w = 0
			}
		case "request":
			id, _ := strconv.Atoi(f[1])
			if ph := st.phases[id]; ph != "serving" && ph != "rejected" {
				continue
			}
			w = 2
		case "finish":
			if f[2] == "idle" {
				w = 1
				for cid, ph := range st.phases {
					if ph == "serving" && strconv.Itoa(cid) != f[1] {
						w = 0 // waiting for the idle timeout would also expire the other sessions
					}
				}
			} else if f[2] == "stop" {
				continue
			} else {
				w = 3
			}
		}
		for i := 0; i < w; i++ {
			cands = append(cands, s)
		}
	}
	if len(cands) == 0 {
		return ""
	}
	return cands[r.Intn(len(cands))]
}

// corpus of targeted schedules (run first)
var lifeCorpus = []struct {
	max   int
	steps string
}{
	{1, "start;arrive 1;accept 0 1;decide 1;launch 1;arrive 2;accept 0 2;decide 2;launch 2;request 2;request 1;finish 1 peer;remove 1;close 1;arrive 3;accept 0 3;decide 3;launch 3;request 3"},
	{2, "start;arrive 1;accept 0 1;stop;exit 0;decide 1;launch 1;request 1"},
	{1, "start;arrive 1;accept 0 1;decide 1;launch 1;stop;exit 0;finish 1 stop;remove 1;close 1;start;arrive 2;accept 1 2;decide 2;launch 2;request 2;stop;exit 1;finish 2 stop;remove 2;close 2"},
	{2, "start;start;arrive 1;accept 0 1;decide 1;launch 1;request 1;finish 1 proto;remove 1;close 1;stop;stop;exit 0"},
	{1, "start;arrive 1;accept 0 1;decide 1;launch 1;request 1;finish 1 idle;remove 1;close 1;arrive 2;accept 0 2;decide 2;launch 2;request 2"},
	{3, "start;arrive 1;accept 0 1;decide 1;launch 1;arrive 2;accept 0 2;decide 2;launch 2;arrive 3;accept 0 3;decide 3;launch 3;finish 2 peer;remove 2;close 2;finish 1 peer;finish 3 peer;remove 3;remove 1;close 1;close 3;arrive 4;accept 0 4;decide 4;launch 4;request 4"},
}

func init() {
	perms := [][]int{{1, 2, 3}, {1, 3, 2}, {2, 1, 3}, {2, 3, 1}, {3, 1, 2}, {3, 2, 1}}
	for _, p := range perms {
		st := "start"
		for c := 1; c <= 3; c++ {
			st += fmt.Sprintf(";arrive %d;accept 0 %d;decide %d;launch %d", c, c, c, c)
		}
		st += ";arrive 4;accept 0 4;decide 4;launch 4;request 4"
		for _, c := range p {
			st += fmt.Sprintf(";finish %d peer;remove %d;close %d", c, c, c)
		}
		for c := 5; c <= 7; c++ {
			st += fmt.Sprintf(";arrive %d;accept 0 %d;decide %d;launch %d;request %d", c, c, c, c, c)
		}
		lifeCorpus = append(lifeCorpus, struct {
			max   int
			steps string
		}{3, st})
	}
	// four sessions, the first one ends first (position 0 of 4), then the rest in reverse
	lifeCorpus = append(lifeCorpus, struct {
		max   int
		steps string
	}{4, "start;arrive 1;accept 0 1;decide 1;launch 1;arrive 2;accept 0 2;decide 2;launch 2;arrive 3;accept 0 3;decide 3;launch 3;arrive 4;accept 0 4;decide 4;launch 4;finish 1 peer;remove 1;close 1;request 2;request 3;request 4;finish 4 peer;remove 4;close 4;finish 3 proto;remove 3;close 3;finish 2 peer;remove 2;close 2;arrive 5;accept 0 5;decide 5;launch 5;request 5"})
}

func lifeCheck(prop string) checkFn {
	return func(tier string, seed uint64, res *Result) error {
		res.Rule = "schedules of the server life cycle (Start, Stop, arrivals, accept, admission decision, launch, requests, session end by peer close / protocol error / idle timeout / Stop, removal, close) executed on the REAL server step by step through the verifYield scheduling points and on the Lean model; after every step started / number of registered connections / served-or-not are compared, and model-independent oracles are evaluated (bound, admission rule in quiescent states, rejected never served and closed, Stop post-condition, idempotence, no goroutine left); targeted corpus first, then schedules drawn from the model's enabled steps (forced steps first: FIFO accept, acceptor exit, session end after Stop); distinct = multiset of step kinds + MaxClients; C10 also: K = 3..8 real connections served once each, then Stop — every one must see the end of its stream and get no answer afterwards (stop-closes-all)"
		mp, err := StartModel()
		if err != nil {
			return err
		}
		defer mp.Close()
		r := NewRng(seed).Fork(9000)
		run := func(max int, fixed []string, n int) {
			o := runLifeSchedule(mp, r, max, n, fixed)
			key := fmt.Sprintf("max%d/", max) + classKey(o.classes)
			res.Eval(key, true, "life "+strconv.Itoa(max)+" "+strings.Join(o.steps, ";"))
			for _, c := range o.classes {
				res.Count("step:" + c)
			}
			for _, f := range o.findings {
				res.Add(f)
			}
		}
		for _, c := range lifeCorpus {
			run(c.max, strings.Split(c.steps, ";"), 0)
		}
		n := scale(tier, 150, 3000)
		for i := 0; i < n; i++ {
			run(1+r.Intn(3), nil, 12+r.Intn(40))
		}
		if prop == "C10" {
			rapidRestart(tier, res)
			stopClosesAll(tier, res)
		}
		if prop == "C09" {
			slotProbes(tier, res)
		}
		if prop == "C10" || prop == "C09" {
			collectRaceReports(res, "race")
		}
		return nil
	}
}

// rapidRestart: Stop immediately followed by Start, many times, without the scheduler (the accept
// goroutine of the previous run wakes up from its failed Accept while the next run is already
// started). Afterwards exactly one accept goroutine may exist, the server must serve, and after a
// final Stop none may be left.
// stopClosesAll: K served connections (each has completed one exchange, so each is registered),
// then Stop: when Stop has returned every one of them must have been closed by the server — the
// peer sees the end of the stream — and a request written afterwards must not be answered. Real
// sockets, no scheduler hook: the sessions tear themselves down concurrently with Stop's own loop.
func stopClosesAll(tier string, res *Result) {
	modbus.VerifSetScheduler(nil)
	rounds := scale(tier, 12, 80)
	for round := 0; round < rounds; round++ {
		K := 3 + round%6
		h := &scriptedHandler{script: []string{"ok"}, events: &[]string{}, evmu: &sync.Mutex{}}
		srv, err := modbus.NewServer(&modbus.ServerConfiguration{URL: "tcp://127.0.0.1:0", Timeout: 2 * time.Second, MaxClients: uint(K), Logger: quietLog}, h)
		if err != nil {
			res.Note("stop-closes-all: " + err.Error())
			return
		}
		if err := srv.Start(); err != nil {
			res.Note("stop-closes-all: " + err.Error())
			return
		}
		addr := srv.VerifListenAddr().String()
		var conns []net.Conn
		req := mbapFrame(7, 0, 1, 3, append(be16b(1), be16b(1)...))
		okAll := true
		for i := 0; i < K; i++ {
			c, err := net.DialTimeout("tcp", addr, time.Second)
			if err != nil {
				okAll = false
				break
			}
			conns = append(conns, c)
			c.Write(req)
			c.SetReadDeadline(time.Now().Add(time.Second))
			buf := make([]byte, 32)
			if n, _ := io.ReadAtLeast(c, buf, 11); n < 11 {
				okAll = false
			}
		}
		if !okAll { // environment trouble (the admission itself is C09's subject): drop the round
			for _, c := range conns {
				c.Close()
			}
			srv.Stop()
			continue
		}
		srv.Stop()
		line := fmt.Sprintf("%d connections served once each, then Stop()", K)
		open, answered := 0, 0
		for _, c := range conns {
			c.Write(req)
			c.SetReadDeadline(time.Now().Add(300 * time.Millisecond))
			buf := make([]byte, 32)
			n, err := c.Read(buf)
			if n > 0 {
				answered++
			} else if ne, ok := err.(net.Error); ok && ne.Timeout() {
				open++ // neither data nor end of stream: the server never closed this connection
			}
			c.Close()
		}
		good := open == 0 && answered == 0
		res.Eval(fmt.Sprintf("stop-closes-all/K%d", K), good, line)
		if !good {
			res.Add(Finding{Kind: "property", Check: "stop-closes-all", Line: line,
				Impl:   fmt.Sprintf("%d connection(s) still open after Stop returned, %d request(s) answered afterwards", open, answered),
				Expect: "every connection closed, no request answered", Note: "when Stop returns every client connection has been closed and no request sent afterwards reaches a handler"})
		}
	}
}

func rapidRestart(tier string, res *Result) {
	modbus.VerifSetScheduler(nil)
	h := &scriptedHandler{script: []string{"ok"}, events: &[]string{}, evmu: &sync.Mutex{}}
	srv, err := modbus.NewServer(&modbus.ServerConfiguration{URL: "tcp://127.0.0.1:0", Timeout: time.Second, MaxClients: 4, Logger: quietLog}, h)
	if err != nil {
		res.Note("rapid restart: " + err.Error())
		return
	}
	base := serverGoroutines()
	cycles := scale(tier, 150, 1500)
	if err := srv.Start(); err != nil {
		res.Note("rapid restart: " + err.Error())
		return
	}
	addr := srv.VerifListenAddr().String()
	_ = addr
	for i := 0; i < cycles; i++ {
		srv.Stop()
		if err := srv.Start(); err != nil { // the port of 127.0.0.1:0 changes with every Start
			res.Note("rapid restart: " + err.Error())
			break
		}
	}
	line := fmt.Sprintf("rapid restart: Start; %d x (Stop; Start)", cycles)
	settle := time.Now().Add(2 * time.Second) // the old accept goroutines only have to return from a failed Accept
	for serverGoroutines()-base != 1 && time.Now().Before(settle) {
		time.Sleep(10 * time.Millisecond)
	}
	if n := serverGoroutines() - base; n != 1 {
		res.Add(Finding{Kind: "property", Check: "restart-goroutines", Line: line, Impl: fmt.Sprintf("%d server goroutines alive while started and idle", n), Expect: "1 (the accept goroutine of the current run)",
			Note: "an accept goroutine of an earlier run outlived its Stop"})
	}
	// serves after the last Start
	if c, err := net.DialTimeout("tcp", srv.VerifListenAddr().String(), time.Second); err == nil {
		c.Write(mbapFrame(1, 0, 1, 3, append(be16b(1), be16b(1)...)))
		c.SetReadDeadline(time.Now().Add(time.Second))
		buf := make([]byte, 32)
		if n, _ := c.Read(buf); n < 9 {
			res.Add(Finding{Kind: "property", Check: "restart-serves", Line: line, Impl: fmt.Sprintf("%d reply bytes", n), Expect: "a reply", Note: "Start after Stop does not serve"})
		}
		c.Close()
	} else {
		res.Add(Finding{Kind: "property", Check: "restart-serves", Line: line, Impl: err.Error(), Expect: "connection accepted"})
	}
	srv.Stop()
	deadline := time.Now().Add(time.Second)
	for serverGoroutines()-base > 0 && time.Now().Before(deadline) {
		time.Sleep(5 * time.Millisecond)
	}
	if n := serverGoroutines() - base; n > 0 {
		res.Add(Finding{Kind: "property", Check: "goroutine-leak", Line: line + "; Stop", Impl: fmt.Sprintf("%d server goroutines alive 1 s after Stop", n), Expect: "0", Note: "a server goroutine outlives Stop"})
	}
	res.Eval("rapid-restart", true, line)
	startFailure(res)
}

// startFailure: a Start that fails (the port is held by somebody else) must leave the server
// stopped: a later Start binds and serves, Stop afterwards is harmless.
func startFailure(res *Result) {
	hold, err := net.Listen("tcp", "127.0.0.1:0")
	if err != nil {
		return
	}
	addr := hold.Addr().String()
	h := &scriptedHandler{script: []string{"ok"}, events: &[]string{}, evmu: &sync.Mutex{}}
	srv, err := modbus.NewServer(&modbus.ServerConfiguration{URL: "tcp://" + addr, Timeout: time.Second, MaxClients: 4, Logger: quietLog}, h)
	if err != nil {
		hold.Close()
		return
	}
	line := "Start while the port is held by another socket (must fail); release the port; Start; one request; Stop; Stop"
	out := guard(func() string {
		var steps []string
		e1 := srv.Start()
		steps = append(steps, "start1="+canonErr(e1))
		started, _ := srv.VerifSnapshot()
		steps = append(steps, fmt.Sprintf("started=%v", started))
		hold.Close()
		var e2 error
		for i := 0; i < 50; i++ { // the port may linger for a moment
			if e2 = srv.Start(); e2 == nil {
				break
			}
			time.Sleep(10 * time.Millisecond)
		}
		steps = append(steps, "start2="+canonErr(e2))
		served := false
		if c, err := net.DialTimeout("tcp", addr, time.Second); err == nil {
			c.Write(mbapFrame(1, 0, 1, 3, append(be16b(1), be16b(1)...)))
			c.SetReadDeadline(time.Now().Add(time.Second))
			buf := make([]byte, 32)
			n, _ := c.Read(buf)
			served = n >= 9
			c.Close()
		}
		steps = append(steps, fmt.Sprintf("served=%v", served))
		srv.Stop()
		srv.Stop()
		steps = append(steps, "stopped")
		return strings.Join(steps, " ")
	})
	res.Eval("start-failure", true, line+" => "+out)
	if !strings.HasPrefix(out, "start1=io-other started=false start2=nil served=true stopped") {
		res.Add(Finding{Kind: "property", Check: "start-failure", Line: line, Impl: out, Expect: "start1=<error> started=false start2=nil served=true stopped",
			Note: "a failed Start left the server in a state from which Start / Stop no longer work"})
	}
}

func classKey(cs []string) string {
	m := map[string]int{}
	for _, c := range cs {
		m[c]++
	}
	var keys []string
	for _, k := range []string{"start", "stop", "arrive", "decide", "request", "finish", "remove"} {
		if m[k] > 0 {
			keys = append(keys, fmt.Sprintf("%s%d", k[:2], min(m[k], 4)))
		}
	}
	return strings.Join(keys, "")
}

func init() {
	checks["C09"] = lifeCheck("C09")
	checks["C10"] = lifeCheck("C10")
}

// slotProbes (C09), without the scheduler:
//
//	(a) tcp+tls server, MaxClients 2: peers whose handshake fails (plain text, hang-up) must not
//	    keep their slots — afterwards the pool is empty and a correctly authenticated client is served;
//	(b) bursts of connections dialled back to back: every one is served on its own socket, and
//	    after they close the pool is empty and MaxClients new connections are served.
func slotProbes(tier string, res *Result) {
	modbus.VerifSetScheduler(nil)
	waitPool := func(srv *modbus.ModbusServer, want int, d time.Duration) int {
		limit := time.Now().Add(d)
		for {
			_, n := srv.VerifSnapshot()
			if n == want || time.Now().After(limit) {
				return n
			}
			time.Sleep(2 * time.Millisecond)
		}
	}
	// (a)
	func() {
		ca, err := mint(certSpec{cn: "ca", isCA: true})
		if err != nil {
			res.Note("slot probe: " + err.Error())
			return
		}
		srvCert, _ := mint(certSpec{cn: "server", parent: ca, ips: []net.IP{net.IPv4(127, 0, 0, 1)}, extKeyUse: []x509.ExtKeyUsage{x509.ExtKeyUsageServerAuth}})
		cliCert, _ := mint(certSpec{cn: "client", parent: ca, extKeyUse: []x509.ExtKeyUsage{x509.ExtKeyUsageClientAuth}})
		h := &memHandler{}
		srv, err := modbus.NewServer(&modbus.ServerConfiguration{URL: "tcp+tls://127.0.0.1:0", Timeout: 2 * time.Second, MaxClients: 2, Logger: quietLog,
			TLSServerCert: srvCert.tlsCert(), TLSClientCAs: poolOf(ca)}, h)
		if err != nil || srv.Start() != nil {
			res.Note("slot probe: tls server did not start")
			return
		}
		defer srv.Stop()
		addr := srv.VerifListenAddr().String()
		line := "tcp+tls server, MaxClients 2: a plain-text peer and a peer that hangs up during the handshake, then a valid client"
		for round := 0; round < 3; round++ {
			if c, err := net.Dial("tcp", addr); err == nil {
				c.Write([]byte{0, 1, 0, 0, 0, 6, 1, 3, 0, 0, 0, 1}) // modbus/tcp in the clear
				time.Sleep(20 * time.Millisecond)
				c.Close()
			}
			if c, err := net.Dial("tcp", addr); err == nil {
				c.Write([]byte{0x16, 0x03, 0x01}) // the beginning of a ClientHello, then hang up
				c.Close()
			}
		}
		if n := waitPool(srv, 0, 3*time.Second); n != 0 {
			res.Add(Finding{Kind: "property", Check: "slot-after-failed-handshake", Line: line, Impl: fmt.Sprintf("%d connections still registered 3 s after the peers left", n), Expect: "0",
				Note: "a connection whose TLS handshake failed keeps its slot"})
		}
		mc, err := modbus.NewClient(&modbus.ClientConfiguration{URL: "tcp+tls://" + addr, Timeout: time.Second, Logger: quietLog, TLSClientCert: cliCert.tlsCert(), TLSRootCAs: poolOf(ca)})
		if err == nil {
			if oerr := mc.Open(); oerr != nil {
				res.Add(Finding{Kind: "property", Check: "slot-after-failed-handshake", Line: line, Impl: "valid client: Open: " + oerr.Error(), Expect: "served"})
			} else {
				if _, rerr := mc.ReadRegister(1, modbus.HOLDING_REGISTER); rerr != nil {
					res.Add(Finding{Kind: "property", Check: "slot-after-failed-handshake", Line: line, Impl: "valid client: " + rerr.Error(), Expect: "served"})
				}
				mc.Close()
			}
		}
		res.Eval("slot-probe/tls-handshake-failure", true, line)
	}()
	// (b)
	burstProbe(tier, res, false)
	// (c) MaxClients at and beyond 2^63 (the limit is an unsigned comparison): connections are served
	for _, mcv := range []uint{1 << 63, ^uint(0) - 1, ^uint(0)} {
		h := &memHandler{}
		srv, err := modbus.NewServer(&modbus.ServerConfiguration{URL: "tcp://127.0.0.1:0", Timeout: 2 * time.Second, MaxClients: mcv, Logger: quietLog}, h)
		if err != nil || srv.Start() != nil {
			res.Note("slot probe: tcp server did not start")
			continue
		}
		served := 0
		for i := 0; i < 3; i++ {
			c, err := net.Dial("tcp", srv.VerifListenAddr().String())
			if err != nil {
				continue
			}
			c.Write(mbapFrame(uint16(i), 0, 1, 3, append(be16b(i), be16b(1)...)))
			c.SetReadDeadline(time.Now().Add(time.Second))
			buf := make([]byte, 32)
			if n, _ := io.ReadAtLeast(c, buf, 9); n >= 9 {
				served++
			}
			c.Close()
		}
		srv.Stop()
		line := fmt.Sprintf("tcp server, MaxClients %d: three connections, one after the other", mcv)
		res.Eval(fmt.Sprintf("slot-probe/maxclients/%d", mcv>>62), true, line)
		if served != 3 {
			res.Add(Finding{Kind: "property", Check: "maxclients-range", Line: line, Impl: fmt.Sprintf("%d of 3 served", served), Expect: "3 served", Note: "a connection below the configured limit was turned away"})
		}
	}
}

// burstProbe: bursts of MaxClients connections dialled back to back; every second round the accept
// loop is held at its first connection until the whole burst is queued and then runs on a single P,
// so that it takes all queued connections before any session goroutine it spawned gets to run.
// withCuts: all but one connection send a strict prefix of a request and close (C13): the complete
// request must be answered exactly once, and all slots must come back.
func burstProbe(tier string, res *Result, withCuts bool) {
	modbus.VerifSetScheduler(nil)
	waitPool := func(srv *modbus.ModbusServer, want int, d time.Duration) int {
		limit := time.Now().Add(d)
		for {
			_, n := srv.VerifSnapshot()
			if n == want || time.Now().After(limit) {
				return n
			}
			time.Sleep(2 * time.Millisecond)
		}
	}
	h := &memHandler{}
	const max = 4
	srv, err := modbus.NewServer(&modbus.ServerConfiguration{URL: "tcp://127.0.0.1:0", Timeout: 2 * time.Second, MaxClients: max, Logger: quietLog}, h)
	if err != nil || srv.Start() != nil {
		res.Note("burst probe: tcp server did not start")
		return
	}
	defer srv.Stop()
	addr := srv.VerifListenAddr().String()
	rounds := scale(tier, 12, 100)
	for round := 0; round < rounds; round++ {
		line := fmt.Sprintf("tcp server, MaxClients %d: %d connections dialled back to back (round %d), cuts=%v", max, max, round, withCuts)
		var conns []net.Conn
		gate := make(chan struct{})
		var once sync.Once
		pinned := round%2 == 1
		if pinned {
			modbus.VerifSetScheduler(func(point string, sock net.Conn) {
				if point == "accepted" {
					first := false
					once.Do(func() { first = true })
					if first {
						<-gate
					}
				}
			})
		}
		for i := 0; i < max; i++ {
			c, err := net.Dial("tcp", addr)
			if err != nil {
				break
			}
			conns = append(conns, c)
		}
		if pinned {
			time.Sleep(5 * time.Millisecond) // let the kernel queue them
			prev := runtime.GOMAXPROCS(1)
			close(gate)
			time.Sleep(20 * time.Millisecond)
			runtime.GOMAXPROCS(prev)
			modbus.VerifSetScheduler(nil)
		}
		h.mu.Lock()
		callsBefore := len(h.calls)
		h.mu.Unlock()
		whole := round % len(maxInt(conns))
		unanswered, expectReplies := 0, 0
		for i, c := range conns {
			f := mbapFrame(uint16(0x100+i), 0, 1, 3, append(be16b(i), be16b(1)...))
			if withCuts && i != whole {
				c.Write(f[:1+(round+i)%(len(f)-1)])
				c.Close()
				continue
			}
			c.Write(f)
		}
		for i, c := range conns {
			if withCuts && i != whole {
				continue
			}
			expectReplies++
			c.SetReadDeadline(time.Now().Add(time.Second))
			buf := make([]byte, 32)
			n, _ := io.ReadAtLeast(c, buf, 9)
			if n < 9 || buf[0] != 0x01 || buf[1] != byte(i) {
				unanswered++
			}
		}
		for _, c := range conns {
			c.Close()
		}
		left := waitPool(srv, 0, 3*time.Second)
		h.mu.Lock()
		calls := len(h.calls) - callsBefore
		h.mu.Unlock()
		if unanswered > 0 || left != 0 || calls != expectReplies {
			res.Add(Finding{Kind: "property", Check: "burst-slots", Line: line, Impl: fmt.Sprintf("%d of %d complete requests got no reply of their own; %d handler calls; %d still registered after all closed", unanswered, expectReplies, calls, left),
				Expect: fmt.Sprintf("every complete request answered on its own socket, %d handler calls, pool empty afterwards", expectReplies), Note: "a connection admitted in a burst was not served, or its slot was not released"})
			break
		}
	}
	res.Eval(fmt.Sprintf("slot-probe/burst/cuts=%v", withCuts), true, fmt.Sprintf("%d bursts of %d connections", rounds, max))
}

func maxInt(c []net.Conn) []net.Conn {
	if len(c) == 0 {
		return make([]net.Conn, 1)
	}
	return c
}
