package main

import (
	"crypto/ecdsa"
	"crypto/elliptic"
	"crypto/rand"
	"crypto/tls"
	"crypto/x509"
	"crypto/x509/pkix"
	"encoding/asn1"
	"math/big"
	"net"
	"time"
)

// in-process certificate minting (no fixtures)

type certSpec struct {
	cn         string
	isCA       bool
	parent     *minted // nil = self-signed
	notBefore  time.Time
	notAfter   time.Time
	extKeyUse  []x509.ExtKeyUsage
	dnsNames   []string
	ips        []net.IP
	extraExts  []pkix.Extension
	serial     int64
}

type minted struct {
	cert *x509.Certificate
	key  *ecdsa.PrivateKey
	der  []byte
}

func (m *minted) tlsCert() *tls.Certificate {
	return &tls.Certificate{Certificate: [][]byte{m.der}, PrivateKey: m.key, Leaf: m.cert}
}

func mint(s certSpec) (*minted, error) {
	key, err := ecdsa.GenerateKey(elliptic.P256(), rand.Reader)
	if err != nil {
		return nil, err
	}
	if s.notBefore.IsZero() {
		s.notBefore = time.Now().Add(-time.Hour)
	}
	if s.notAfter.IsZero() {
		s.notAfter = time.Now().Add(24 * time.Hour)
	}
	if s.serial == 0 {
		s.serial = time.Now().UnixNano()
	}
	tpl := &x509.Certificate{
		SerialNumber:          big.NewInt(s.serial),
		Subject:               pkix.Name{CommonName: s.cn},
		NotBefore:             s.notBefore,
		NotAfter:              s.notAfter,
		KeyUsage:              x509.KeyUsageDigitalSignature,
		ExtKeyUsage:           s.extKeyUse,
		BasicConstraintsValid: true,
		IsCA:                  s.isCA,
		DNSNames:              s.dnsNames,
		IPAddresses:           s.ips,
		ExtraExtensions:       s.extraExts,
	}
	if s.isCA {
		tpl.KeyUsage |= x509.KeyUsageCertSign
	}
	parentCert, parentKey := tpl, key
	if s.parent != nil {
		parentCert, parentKey = s.parent.cert, s.parent.key
	}
	der, err := x509.CreateCertificate(rand.Reader, tpl, parentCert, &key.PublicKey, parentKey)
	if err != nil {
		return nil, err
	}
	cert, err := x509.ParseCertificate(der)
	if err != nil {
		return nil, err
	}
	return &minted{cert: cert, key: key, der: der}, nil
}

func poolOf(ms ...*minted) *x509.CertPool {
	p := x509.NewCertPool()
	for _, m := range ms {
		p.AddCert(m.cert)
	}
	return p
}

var roleOID = asn1.ObjectIdentifier{1, 3, 6, 1, 4, 1, 50316, 802, 1}
