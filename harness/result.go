package main

import (
	"encoding/json"
	"os"
	"sort"
	"sync"
)

// Finding is one case on which implementation, model and/or property oracle differ.
type Finding struct {
	Kind   string `json:"kind"` // "correspondence" (impl != model) or "property" (impl breaks the property)
	Check  string `json:"check"`
	Line   string `json:"line"`   // the replayable op line
	Impl   string `json:"impl"`   // what the implementation did
	Expect string `json:"expect"` // what the model / oracle says
	Note   string `json:"note,omitempty"`
}

type Result struct {
	mu          sync.Mutex
	Property    string         `json:"property"`
	Tier        string         `json:"tier"`
	Seed        uint64         `json:"seed"`
	Evaluations int            `json:"evaluations"`
	Distinct    int            `json:"distinct_nontrivial"`
	Rule        string         `json:"rule"`
	Samples     []string       `json:"samples"`
	Histogram   map[string]int `json:"histogram"`
	Findings    []Finding      `json:"findings"`
	Notes       []string       `json:"notes,omitempty"`
	Exhaustive  bool           `json:"exhaustive,omitempty"`
	distinct    map[string]bool
}

func NewResult(prop, tier string, seed uint64) *Result {
	return &Result{Property: prop, Tier: tier, Seed: seed, Histogram: map[string]int{}, distinct: map[string]bool{}}
}

func (r *Result) Count(key string) {
	r.mu.Lock()
	r.Histogram[key]++
	r.mu.Unlock()
}

// Eval records one evaluated case; key identifies its (op kind, branch, outcome class) for the
// distinct-nontrivial count; nontrivial says whether the case used a non-default argument.
func (r *Result) Eval(key string, nontrivial bool, sample string) {
	r.mu.Lock()
	r.Evaluations++
	if nontrivial && !r.distinct[key] {
		r.distinct[key] = true
		if len(r.Samples) < 12 {
			r.Samples = append(r.Samples, sample)
		}
	}
	r.mu.Unlock()
}

func (r *Result) Add(f Finding) {
	r.mu.Lock()
	// at most 200 findings of each kind are kept: a flood of correspondence differences must not
	// crowd out the property failures (the failing inputs) found later in the same run
	n := 0
	for i := range r.Findings {
		if (r.Findings[i].Kind == "property") == (f.Kind == "property") {
			n++
		}
	}
	if n < 200 {
		r.Findings = append(r.Findings, f)
	}
	r.mu.Unlock()
}

func (r *Result) Note(s string) {
	r.mu.Lock()
	r.Notes = append(r.Notes, s)
	r.mu.Unlock()
}

func (r *Result) Write(path string) error {
	r.mu.Lock()
	defer r.mu.Unlock()
	r.Distinct = len(r.distinct)
	sort.Strings(r.Samples)
	if r.Findings == nil {
		r.Findings = []Finding{}
	}
	b, err := json.MarshalIndent(r, "", " ")
	if err != nil {
		return err
	}
	return os.WriteFile(path, b, 0o644)
}
