package main

import (
	"bufio"
	"bytes"
	"fmt"
	"os"
	"os/exec"
	"strings"
)

var modelPath = "/verif/lean/.lake/build/bin/mbmodel"

// runModel pipes the lines through mbmodel and returns one output line per input line.
func runModel(lines []string) ([]string, error) {
	if len(lines) == 0 {
		return nil, nil
	}
	cmd := exec.Command(modelPath)
	var in bytes.Buffer
	for _, l := range lines {
		if strings.ContainsAny(l, "\n\r") {
			return nil, fmt.Errorf("line contains newline: %q", l)
		}
		in.WriteString(l)
		in.WriteByte('\n')
	}
	cmd.Stdin = &in
	cmd.Stderr = os.Stderr
	outb, err := cmd.Output()
	if err != nil {
		return nil, fmt.Errorf("mbmodel: %v", err)
	}
	var out []string
	sc := bufio.NewScanner(bytes.NewReader(outb))
	sc.Buffer(make([]byte, 1<<20), 64<<20)
	for sc.Scan() {
		out = append(out, sc.Text())
	}
	if len(out) != len(lines) {
		return nil, fmt.Errorf("mbmodel returned %d lines for %d inputs", len(out), len(lines))
	}
	return out, nil
}

// runModelParallel runs one mbmodel process per line (for a few expensive lines).
func runModelParallel(lines []string) ([]string, error) {
	out := make([]string, len(lines))
	errs := make([]error, len(lines))
	done := make(chan int, len(lines))
	for i := range lines {
		go func(i int) {
			o, err := runModel([]string{lines[i]})
			if err == nil {
				out[i] = o[0]
			}
			errs[i] = err
			done <- i
		}(i)
	}
	for range lines {
		<-done
	}
	for _, e := range errs {
		if e != nil {
			return nil, e
		}
	}
	return out, nil
}
