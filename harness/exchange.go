package main

import (
	"time"
	"fmt"
	"strings"

	"github.com/simonvetter/modbus"
)

// scripted client session --------------------------------------------------------------------------

type session struct {
	kind string
	mc   *modbus.ModbusClient
	conn *ScriptConn
	unit byte
	e, w uint
	hung bool // a call on this client never returned: the next exchange starts on a fresh client
}

func newSession(kind string) (*session, error) {
	mc, conn, err := newScriptedClient(kind)
	if err != nil {
		return nil, err
	}
	return &session{kind: kind, mc: mc, conn: conn, unit: 1, e: 1, w: 1}, nil
}

func (s *session) setUnit(u byte) { s.unit = u; s.mc.SetUnitId(u) }
func (s *session) setEnc(e, w uint) {
	s.e, s.w = e, w
	s.mc.SetEncoding(modbus.Endianness(e), modbus.WordOrder(w))
}

// exchange runs op once. reply(w) produces the chunks the peer sends after seeing the request.
// Unread input from earlier exchanges stays pending unless clear is true.
// Returns the model line (cex …), the implementation's canonical output, and the request seen.
func (s *session) exchange(op *Op, ending string, clear bool, reply func(w wireReq) [][]byte) (line, impl string, req wireReq) {
	if s.hung {
		if s2, err := newSession(s.kind); err == nil {
			s2.setUnit(s.unit)
			s2.setEnc(s.e, s.w)
			*s = *s2
		}
	}
	if clear {
		s.conn.Arm(nil, "timeout")
	}
	pendBefore := s.conn.Pending()
	if len(pendBefore) > 0 {
		s.conn.Arm([][]byte{pendBefore}, ending)
	} else {
		s.conn.Arm(nil, ending)
	}
	txnBefore := 0
	if !isRTUKind(s.kind) {
		txnBefore = s.mc.VerifConfig().LastTxnId
	}
	var arrivals []byte
	s.conn.OnWrite = func(b []byte) {
		req = parseWire(isRTUKind(s.kind), b)
		if !req.ok || reply == nil {
			return
		}
		chunks := reply(req)
		arrivals = append(arrivals, flat(chunks)...)
		s.conn.Feed(chunks...)
	}
	s.conn.TakeWritten()
	// a call that never returns (a lock kept by an earlier failed exchange, …) must not stall the
	// check: it is reported as the outcome `hang`
	var out string
	{
		mc := s.mc
		done := make(chan string, 1)
		go func() { done <- op.Exec(mc) }()
		select {
		case out = <-done:
		case <-time.After(6 * time.Second):
			out = "hang"
			s.hung = true
		}
	}
	s.conn.OnWrite = nil
	written := s.conn.TakeWritten()
	ws := "none"
	if len(written) > 0 {
		parts := make([]string, len(written))
		for j, x := range written {
			parts[j] = hx(x)
		}
		ws = strings.Join(parts, "|")
	}
	txnAfter := 0
	if !isRTUKind(s.kind) && !s.hung {
		// the hook takes the client's lock: a lock leaked by the call just made shows here
		mc := s.mc
		got := make(chan int, 1)
		go func() { got <- mc.VerifConfig().LastTxnId }()
		select {
		case txnAfter = <-got:
		case <-time.After(3 * time.Second):
			s.hung = true
			out += " then-hang"
		}
	}
	impl = fmt.Sprintf("w=%s r=%s txn=%d pend=%s", ws, out, txnAfter, hx(s.conn.Pending()))
	line = fmt.Sprintf("cex %s %d %d %d %d %s %s %s %s", s.kind, s.unit, s.e, s.w, txnBefore,
		hx(pendBefore), hx(arrivals), ending, op.Line())
	return
}

func isOK(impl string) bool { return strings.HasPrefix(field(impl, "r"), "ok:") }

// simple deterministic reply data so that replies can be recognised
func taggedReply(w wireReq, tag uint16) []byte {
	pl := validReplyPayload(NewRng(uint64(tag)), w.fc, w.payload)
	if (w.fc == 3 || w.fc == 4) && len(pl) >= 3 {
		pl[1], pl[2] = byte(tag>>8), byte(tag)
	}
	return pl
}

// modelCheck pipes (line, impl) pairs through mbmodel and records correspondence findings.
func modelCheck(check string, pairs [][2]string, res *Result) error {
	lines := make([]string, len(pairs))
	for i, p := range pairs {
		lines[i] = p[0]
	}
	outs, err := runModel(lines)
	if err != nil {
		return err
	}
	for i, p := range pairs {
		if outs[i] != p[1] {
			res.Add(Finding{Kind: "correspondence", Check: check, Line: p[0], Impl: p[1], Expect: outs[i]})
		}
	}
	return nil
}
