package main

import (
	"io"
	"sync"
	"time"

	"github.com/goburrow/serial"
)

// FakeSerialPort behaves like a serial.Port opened with a 10 ms read timeout: Read returns the bytes
// available, or blocks up to 10 ms and then returns serial.ErrTimeout.
type FakeSerialPort struct {
	mu      sync.Mutex
	buf     []byte
	closed  bool
	OnWrite func(b []byte, at time.Time)
	Reads   int
}

func (p *FakeSerialPort) Feed(b []byte) {
	p.mu.Lock()
	p.buf = append(p.buf, b...)
	p.mu.Unlock()
}

func (p *FakeSerialPort) Read(b []byte) (int, error) {
	deadline := time.Now().Add(10 * time.Millisecond)
	for {
		p.mu.Lock()
		p.Reads++
		if p.closed {
			p.mu.Unlock()
			return 0, io.EOF
		}
		if len(p.buf) > 0 {
			n := copy(b, p.buf)
			p.buf = p.buf[n:]
			p.mu.Unlock()
			return n, nil
		}
		p.mu.Unlock()
		if !time.Now().Before(deadline) {
			return 0, serial.ErrTimeout
		}
		time.Sleep(100 * time.Microsecond)
	}
}

func (p *FakeSerialPort) Write(b []byte) (int, error) {
	now := time.Now()
	p.mu.Lock()
	f := p.OnWrite
	p.mu.Unlock()
	if f != nil {
		f(append([]byte(nil), b...), now)
	}
	return len(b), nil
}

func (p *FakeSerialPort) Open(c *serial.Config) error { return nil }

func (p *FakeSerialPort) Close() error {
	p.mu.Lock()
	p.closed = true
	p.mu.Unlock()
	return nil
}
