module verifharness

go 1.16

require (
	github.com/goburrow/serial v0.1.0
	github.com/simonvetter/modbus v0.0.0
)

replace github.com/simonvetter/modbus => /repo
