package main

// A reference Modbus device written independently of /repo: bit-serial CRC, frame
// builders and a reply generator used to produce valid replies which are then mutated.

func refCRC(b []byte) uint16 {
	crc := uint16(0xffff)
	for _, x := range b {
		crc ^= uint16(x)
		for i := 0; i < 8; i++ {
			if crc&1 == 1 {
				crc = (crc >> 1) ^ 0xA001
			} else {
				crc >>= 1
			}
		}
	}
	return crc
}

func rtuFrame(unit, fc byte, payload []byte) []byte {
	f := append([]byte{unit, fc}, payload...)
	c := refCRC(f)
	return append(f, byte(c), byte(c>>8))
}

func mbapFrame(txn uint16, proto uint16, unit, fc byte, payload []byte) []byte {
	n := 2 + len(payload)
	f := []byte{byte(txn >> 8), byte(txn), byte(proto >> 8), byte(proto), byte(n >> 8), byte(n), unit, fc}
	return append(f, payload...)
}

// parsed request as seen on the wire
type wireReq struct {
	rtu     bool
	txn     uint16
	unit    byte
	fc      byte
	payload []byte
	ok      bool
}

func parseWire(rtu bool, b []byte) (w wireReq) {
	w.rtu = rtu
	if rtu {
		if len(b) < 4 {
			return
		}
		w.unit, w.fc, w.payload, w.ok = b[0], b[1], b[2:len(b)-2], true
		return
	}
	if len(b) < 8 {
		return
	}
	w.txn = uint16(b[0])<<8 | uint16(b[1])
	w.unit, w.fc, w.payload, w.ok = b[6], b[7], b[8:], true
	return
}

// validReplyPayload builds the positive response payload for a request PDU with
// pseudo-random data.
func validReplyPayload(r *Rng, fc byte, pl []byte) []byte {
	if len(pl) < 4 {
		return nil
	}
	qty := int(pl[2])<<8 | int(pl[3])
	switch fc {
	case 1, 2:
		n := (qty + 7) / 8
		out := append([]byte{byte(n)}, r.Bytes(n)...)
		return out
	case 3, 4:
		out := append([]byte{byte(2 * qty)}, r.Bytes(2*qty)...)
		return out
	case 5, 6, 15, 16:
		return append([]byte(nil), pl[:4]...)
	}
	return nil
}

func (w wireReq) frame(unit, fc byte, payload []byte) []byte {
	if w.rtu {
		return rtuFrame(unit, fc, payload)
	}
	return mbapFrame(w.txn, 0, unit, fc, payload)
}
