package main

import (
	"fmt"
	"os"
	"time"
	"path/filepath"
	"strings"
	"sync"
	"sync/atomic"

	"github.com/simonvetter/modbus"
)

// collectRaceReports reads the race detector's log files (GORACE=log_path=<prefix>) and turns
// each report into a finding whose replay is the pair of stacks (a concrete failing schedule).
func collectRaceReports(res *Result, check string) {
	prefix := os.Getenv("VERIF_RACE_LOG")
	if prefix == "" {
		res.Note("not running under the race detector (VERIF_RACE_LOG unset)")
		return
	}
	files, _ := filepath.Glob(prefix + "*")
	n := 0
	for _, f := range files {
		b, err := os.ReadFile(f)
		if err != nil {
			continue
		}
		for _, rep := range strings.Split(string(b), "WARNING: DATA RACE")[1:] {
			n++
			var fns []string
			for _, l := range strings.Split(rep, "\n") {
				l = strings.TrimSpace(l)
				if strings.HasPrefix(l, "github.com/simonvetter/modbus.") || strings.HasPrefix(l, "Read at") || strings.HasPrefix(l, "Write at") || strings.HasPrefix(l, "Previous") {
					fns = append(fns, l)
				}
			}
			res.Add(Finding{Kind: "property", Check: check, Line: "go test -race style report", Impl: shorten(strings.Join(fns, " | "), 900), Expect: "no data race between public calls",
				Note: "data race reported by the Go race detector: " + shorten(rep, 1500)})
		}
		os.Remove(f)
	}
	res.Histogram["race-reports"] = n
}

// concurrent device: answers every request at once; every data byte is the low byte of the
// requested address so that decoded values identify the request whatever the encoding is.
type concDevice struct {
	conn        *ScriptConn
	rtu         bool
	delay       time.Duration // hold every reply this long (gives overlapping exchanges a chance to show)
	inflight    int32
	outstanding int32
	overlap     int32
	frames      int32
	badFrames   int32
}

func (d *concDevice) attach() {
	d.conn.OnWrite = func(b []byte) {
		atomic.AddInt32(&d.frames, 1)
		w := parseWire(d.rtu, b)
		wellFormed := w.ok
		if w.ok && !d.rtu {
			wellFormed = int(b[4])<<8|int(b[5]) == len(b)-6 && b[2] == 0 && b[3] == 0
		}
		if w.ok && d.rtu {
			c := refCRC(b[:len(b)-2])
			wellFormed = b[len(b)-2] == byte(c) && b[len(b)-1] == byte(c>>8)
		}
		if !wellFormed {
			atomic.AddInt32(&d.badFrames, 1)
			return
		}
		if len(d.conn.Pending()) != 0 || atomic.LoadInt32(&d.inflight) != 0 {
			// a request was written while the previous one was unanswered / its reply unread:
			// two requests outstanding on the connection
			atomic.AddInt32(&d.overlap, 1)
		}
		var pl []byte
		tag := byte(0)
		if len(w.payload) >= 2 {
			tag = w.payload[1]
		}
		qty := 0
		if len(w.payload) >= 4 {
			qty = int(w.payload[2])<<8 | int(w.payload[3])
		}
		switch w.fc {
		case 1, 2:
			n := (qty + 7) / 8
			v := byte(0)
			if tag&1 == 1 {
				v = 0xff
			}
			pl = append([]byte{byte(n)}, bytesOf(v, n)...)
		case 3, 4:
			pl = append([]byte{byte(2 * qty)}, bytesOf(tag, 2*qty)...)
		default:
			pl = append([]byte(nil), w.payload[:4]...)
		}
		reply := w.frame(w.unit, w.fc, pl)
		if d.delay > 0 {
			atomic.AddInt32(&d.inflight, 1)
			go func() {
				time.Sleep(d.delay)
				// the counter goes down BEFORE the reply becomes readable: otherwise a correct
				// client could read it, return, and let the next caller write its request while the
				// counter still says "unanswered" (a false overlap, seen once under load)
				atomic.AddInt32(&d.inflight, -1)
				d.conn.Feed(reply)
			}()
			return
		}
		d.conn.Feed(reply)
	}
}

func bytesOf(v byte, n int) []byte {
	b := make([]byte, n)
	for i := range b {
		b[i] = v
	}
	return b
}

// ownReply checks that a read result consists only of the tag byte of the caller's address.
func ownReply(out string, tag byte) bool {
	if !strings.HasPrefix(out, "ok:") {
		return true // errors are judged elsewhere
	}
	v := out[3:]
	switch {
	case v == "unit":
		return true
	case strings.HasPrefix(v, "b:"):
		want := "0"
		if tag&1 == 1 {
			want = "1"
		}
		return strings.Trim(v[2:], want) == ""
	default:
		hexs := v[2:]
		t := fmt.Sprintf("%02x", tag)
		for i := 0; i+2 <= len(hexs); i += 2 {
			if hexs[i:i+2] != t {
				return false
			}
		}
		return true
	}
}

// concOp returns an operation of the given method for goroutine g (distinct tag per goroutine).
func concOp(r *Rng, name string, g int) *Op {
	o := genOpNamed(r, name, false)
	tag := []int{0x11, 0x22, 0x33, 0x44}[g%4]
	o.Addr = uint16(r.Intn(100))<<8 | uint16(tag)
	o.RT = uint(r.Intn(2))
	switch name {
	case "ReadCoils", "ReadDiscreteInputs":
		o.Qty = uint16(1 + r.Intn(30))
	case "ReadRegisters", "ReadBytes", "ReadRawBytes":
		o.Qty = uint16(1 + r.Intn(8))
	case "ReadUint32s", "ReadFloat32s", "ReadUint64s", "ReadFloat64s":
		o.Qty = uint16(1 + r.Intn(3))
	case "WriteCoils":
		o.Bools = []bool{true, false, true}
	case "WriteRegisters":
		o.U16s = []uint16{1, 2}
	case "WriteUint32s", "WriteFloat32s":
		o.U32s = []uint32{7}
	case "WriteUint64s", "WriteFloat64s":
		o.U64s = []uint64{9}
	case "WriteBytes", "WriteRawBytes":
		o.Bytes = []byte{1, 2, 3}
	}
	return o
}

var settingOps = []string{"SetEncoding", "SetUnitId", "Close", "Open"}

func runSetting(mc *modbus.ModbusClient, name string, r *Rng) {
	switch name {
	case "SetEncoding":
		mc.SetEncoding(modbus.Endianness(1+r.Intn(2)), modbus.WordOrder(1+r.Intn(2)))
	case "SetUnitId":
		mc.SetUnitId(1)
	case "Close":
		mc.Close()
	case "Open":
		mc.Open()
	}
}

func init() {
	checks["C08"] = func(tier string, seed uint64, res *Result) error {
		res.Rule = "pairs (thorough: also 4-goroutine mixes) of public client methods run concurrently on one real client (tcp, rtuovertcp) over a scripted device, built with -race: every written frame must be one well-formed request, no request may be written while a reply is unread (one outstanding request), every read result must consist of the caller's own tag bytes, and the race detector must stay silent; a result kept by one goroutine must survive another goroutine's exchange (held-result), a setting changed while an exchange is in flight must wait for it (setting-in-flight); quick: every method x {SetEncoding, SetUnitId, Close, Open} + one pair per core function on both framings + sampled method pairs; thorough: all pairs; distinct = (scheme, method A, method B)"
		r := NewRng(seed)
		type pair struct{ a, b string }
		var pairs []pair
		for _, m := range allOps {
			for _, s := range settingOps {
				pairs = append(pairs, pair{m, s})
			}
		}
		for _, s := range settingOps {
			for _, t := range settingOps {
				pairs = append(pairs, pair{s, t})
			}
		}
		if tier == "thorough" {
			for _, a := range allOps {
				for _, b := range allOps {
					pairs = append(pairs, pair{a, b})
				}
			}
		} else {
			for i := 0; i < 60; i++ {
				pairs = append(pairs, pair{allOps[r.Intn(len(allOps))], allOps[r.Intn(len(allOps))]})
			}
		}
		// held results: goroutine A keeps what ReadBytes / ReadRawBytes returned while goroutine B
		// completes an exchange of its own on the same client; A's data must still be A's reply
		// ("each caller receives the reply to its own request") — ordered by channels, so the
		// outcome does not depend on scheduling
		for _, kind := range []string{"tcp", "rtuovertcp"} {
			for _, raw := range []bool{false, true} {
				mc, conn, err := newScriptedClient(kind)
				if err != nil {
					res.Note(err.Error())
					continue
				}
				dev := &concDevice{conn: conn, rtu: isRTUKind(kind)}
				dev.attach()
				read := func(addr uint16) ([]byte, error) {
					if raw {
						return mc.ReadRawBytes(addr, 16, modbus.HOLDING_REGISTER)
					}
					return mc.ReadBytes(addr, 16, modbus.HOLDING_REGISTER)
				}
				var held []byte
				var errA, errB error
				stepA, stepB := make(chan struct{}), make(chan struct{})
				go func() { held, errA = read(0x10a1); close(stepA) }()
				<-stepA
				go func() { _, errB = read(0x20b2); close(stepB) }()
				<-stepB
				name := "ReadBytes"
				if raw {
					name = "ReadRawBytes"
				}
				line := fmt.Sprintf("%s: goroutine A %s(0x10a1, 16) keeps its result; goroutine B %s(0x20b2, 16) completes; A looks at its result again", kind, name, name)
				ok := errA == nil && errB == nil && len(held) == 16
				for _, x := range held {
					if x != 0xa1 {
						ok = false
					}
				}
				res.Eval("held-result/"+kind+"/"+name, ok, line)
				if !ok {
					res.Add(Finding{Kind: "property", Check: "own-reply-held", Line: line, Impl: fmt.Sprintf("errA=%v errB=%v A's data now %s", errA, errB, hx(held)),
						Expect: "sixteen bytes a1 (the reply to A's own request)", Note: "the data a caller received turned into the reply to another caller's request"})
				}
				mc.Close()
			}
		}
		// a setting changed while an exchange is in flight must wait for it: the request is on the
		// wire, its reply held back; SetEncoding / SetUnitId issued meanwhile must not take effect
		// before the call has validated its reply (the echo is compared in the configured byte
		// order, the reply's unit id with the configured one) — so the call must succeed
		for _, kind := range []string{"tcp", "rtuovertcp"} {
			for _, setting := range []string{"SetEncoding", "SetUnitId"} {
				for _, call := range []string{"WriteRegister", "ReadRegisters"} {
					mc, conn, err := newScriptedClient(kind)
					if err != nil {
						res.Note(err.Error())
						continue
					}
					dev := &concDevice{conn: conn, rtu: isRTUKind(kind), delay: 40 * time.Millisecond}
					conn.BlockFor = 500 * time.Millisecond
					dev.attach()
					var out string
					done := make(chan struct{})
					go func() {
						if call == "WriteRegister" {
							out = (&Op{Name: "WriteRegister", Addr: 0x0040, U16: 0x1234}).Exec(mc)
						} else {
							out = (&Op{Name: "ReadRegisters", Addr: 0x0040, Qty: 2}).Exec(mc)
						}
						close(done)
					}()
					for w := 0; w < 2000 && atomic.LoadInt32(&dev.frames) == 0; w++ {
						time.Sleep(50 * time.Microsecond)
					}
					setDone := make(chan struct{})
					go func() {
						if setting == "SetEncoding" {
							mc.SetEncoding(modbus.LITTLE_ENDIAN, modbus.LOW_WORD_FIRST)
						} else {
							mc.SetUnitId(0x55)
						}
						close(setDone)
					}()
					<-done
					select {
					case <-setDone:
					case <-time.After(2 * time.Second):
					}
					line := fmt.Sprintf("%s: %s in flight (reply held back 40 ms), %s called meanwhile", kind, call, setting)
					ok := strings.HasPrefix(out, "ok:")
					res.Eval("setting-in-flight/"+kind+"/"+call+"/"+setting, ok, line+" => "+shorten(out, 60))
					if !ok {
						res.Add(Finding{Kind: "property", Check: "setting-in-flight", Line: line, Impl: out, Expect: "ok (the setting waits for the exchange)",
							Note: "a setting changed by another goroutine took effect in the middle of an exchange"})
					}
					mc.Close()
				}
			}
		}
		// one pair per core function (both calls go through the same lock region), always with
		// replies held back so that two requests outstanding at once become visible
		corePairs := []pair{{"ReadCoils", "ReadDiscreteInputs"}, {"ReadCoil", "ReadCoils"}, {"ReadRegisters", "ReadUint32s"}, {"ReadBytes", "ReadFloat64"},
			{"WriteRegisters", "WriteUint32"}, {"WriteBytes", "WriteFloat64s"}, {"WriteCoil", "WriteCoil"}, {"WriteCoils", "WriteCoils"}, {"WriteRegister", "WriteRegister"},
			{"ReadCoils", "WriteCoils"}, {"ReadRegisters", "WriteRegister"}}
		// the same core pairs once more on the RTU framing (its transport has state of its own:
		// receive path, inter-frame timing), then the sampled pairs
		nTCPCore := len(corePairs)
		corePairs = append(corePairs, corePairs...)
		nCore := len(corePairs)
		pairs = append(corePairs, pairs...)
		var wg sync.WaitGroup
		sem := make(chan struct{}, 16)
		for pi, p := range pairs {
			wg.Add(1)
			sem <- struct{}{}
			go func(pi int, p pair) {
				defer wg.Done()
				defer func() { <-sem }()
				pr := NewRng(seed).Fork(uint64(8000 + pi))
				kind := "tcp"
				if (pi%9 == 0 && pi >= nCore) || (pi >= nTCPCore && pi < nCore) {
					kind = "rtuovertcp"
				}
				mc, conn, err := newScriptedClient(kind)
				if err != nil {
					res.Note(err.Error())
					return
				}
				dev := &concDevice{conn: conn, rtu: isRTUKind(kind)}
				iters := 150
				if pi%3 == 1 || pi < nCore {
					dev.delay = 300 * time.Microsecond // replies held back: an overlapping second request becomes visible
					conn.BlockFor = 50 * time.Millisecond
					iters = 12
				}
				dev.attach()
				if kind != "tcp" {
					iters = 3
					if pi < nCore {
						iters = 12
					}
				}
				start := make(chan struct{})
				var inner sync.WaitGroup
				names := []string{p.a, p.b}
				if tier == "thorough" && pi%7 == 0 {
					names = append(names, allOps[pr.Intn(len(allOps))], settingOps[pr.Intn(2)])
				}
				for g, name := range names {
					inner.Add(1)
					go func(g int, name string) {
						defer inner.Done()
						gr := pr.Fork(uint64(g))
						<-start
						for k := 0; k < iters; k++ {
							isSetting := false
							for _, s := range settingOps {
								if s == name {
									isSetting = true
								}
							}
							if isSetting {
								runSetting(mc, name, gr)
								continue
							}
							op := concOp(gr, name, g)
							out := op.Exec(mc)
							if out == "panic" {
								res.Add(Finding{Kind: "property", Check: "conc-panic", Line: fmt.Sprintf("%s || %s on %s", p.a, p.b, kind), Impl: out, Expect: "no panic"})
							}
							if !ownReply(out, byte(op.Addr)) {
								res.Add(Finding{Kind: "property", Check: "own-reply", Line: fmt.Sprintf("%s || %s on %s: %s", p.a, p.b, kind, op.Line()), Impl: out,
									Expect: fmt.Sprintf("only tag byte %02x", byte(op.Addr)), Note: "a caller received data that answers another goroutine's request"})
							}
						}
					}(g, name)
				}
				close(start)
				finished := make(chan struct{})
				go func() { inner.Wait(); close(finished) }()
				select {
				case <-finished:
				case <-time.After(30 * time.Second):
					// a public call never returned (e.g. a mutex that was copied while held): the
					// goroutines are abandoned
					res.Add(Finding{Kind: "property", Check: "conc-hang", Line: fmt.Sprintf("%s || %s on %s", p.a, p.b, kind), Impl: "at least one call did not return within 30 s",
						Expect: "every call returns (its reply, or an error)", Note: "a caller never received the reply to its own request, nor an error"})
					return
				}
				if dev.overlap > 0 || dev.badFrames > 0 {
					res.Add(Finding{Kind: "property", Check: "atomic-exchange", Line: fmt.Sprintf("%s || %s on %s", p.a, p.b, kind),
						Impl: fmt.Sprintf("%d overlapping requests, %d malformed frames of %d", dev.overlap, dev.badFrames, dev.frames), Expect: "one outstanding request, contiguous frames"})
				}
				res.Eval(kind+"/"+p.a+"/"+p.b, true, fmt.Sprintf("%s || %s on %s: %d frames, %d overlaps", p.a, p.b, kind, dev.frames, dev.overlap))
			}(pi, p)
		}
		wg.Wait()
		collectRaceReports(res, "race")
		return nil
	}
}
