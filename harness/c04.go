package main

import (
	"crypto/x509"
	"fmt"
	"net"
	"strings"
	"sync"
	"time"

	"github.com/simonvetter/modbus"
)

// memHandler: 65536 coils / discrete inputs / holding / input registers; same initial contents as
// System.Mem.init in the Lean model (coils false, holding 0, discrete a = (7a+3)%5==0, input a = 257a+11).
type memHandler struct {
	mu       sync.Mutex
	coils    [65536]bool
	holding  [65536]uint16
	calls    []string
	failWith error // when set, every call is answered with this error
}

func discreteAt(a int) bool { return (a*7+3)%5 == 0 }
func inputAt(a int) uint16   { return uint16(a*257 + 11) }

func (h *memHandler) log(s string) { h.calls = append(h.calls, s) }

func (h *memHandler) HandleCoils(r *modbus.CoilsRequest) ([]bool, error) {
	h.mu.Lock()
	defer h.mu.Unlock()
	h.log(fmt.Sprintf("call:coils:%d:%d:%d:%d:%s", r.UnitId, r.Addr, r.Quantity, b2i(r.IsWrite), bitsStr(r.Args)))
	if h.failWith != nil {
		return nil, h.failWith
	}
	if r.IsWrite {
		for i, v := range r.Args {
			h.coils[int(r.Addr)+i] = v
		}
		return nil, nil
	}
	out := make([]bool, r.Quantity)
	for i := range out {
		out[i] = h.coils[int(r.Addr)+i]
	}
	return out, nil
}
func (h *memHandler) HandleDiscreteInputs(r *modbus.DiscreteInputsRequest) ([]bool, error) {
	h.mu.Lock()
	defer h.mu.Unlock()
	h.log(fmt.Sprintf("call:discrete:%d:%d:%d", r.UnitId, r.Addr, r.Quantity))
	if h.failWith != nil {
		return nil, h.failWith
	}
	out := make([]bool, r.Quantity)
	for i := range out {
		out[i] = discreteAt(int(r.Addr) + i)
	}
	return out, nil
}
func (h *memHandler) HandleHoldingRegisters(r *modbus.HoldingRegistersRequest) ([]uint16, error) {
	h.mu.Lock()
	defer h.mu.Unlock()
	h.log(fmt.Sprintf("call:holding:%d:%d:%d:%d:%s", r.UnitId, r.Addr, r.Quantity, b2i(r.IsWrite), hexU16s(r.Args)))
	if h.failWith != nil {
		return nil, h.failWith
	}
	if r.IsWrite {
		for i, v := range r.Args {
			h.holding[int(r.Addr)+i] = v
		}
		return nil, nil
	}
	out := make([]uint16, r.Quantity)
	for i := range out {
		out[i] = h.holding[int(r.Addr)+i]
	}
	return out, nil
}
func (h *memHandler) HandleInputRegisters(r *modbus.InputRegistersRequest) ([]uint16, error) {
	h.mu.Lock()
	defer h.mu.Unlock()
	h.log(fmt.Sprintf("call:input:%d:%d:%d", r.UnitId, r.Addr, r.Quantity))
	if h.failWith != nil {
		return nil, h.failWith
	}
	out := make([]uint16, r.Quantity)
	for i := range out {
		out[i] = inputAt(int(r.Addr) + i)
	}
	return out, nil
}

// genHistoryOp: operations for round-trip histories: mostly valid, small ranges that overlap, so
// that reads see earlier writes; some boundary addresses and limit violations.
func genHistoryOp(r *Rng) *Op {
	o := genOp(r, false)
	base := []int{0, 0x10, 0x10, 0x20, 0x100, 0xff00, 0xfff0, 0xfffc, 0xffff, 1000}[r.Intn(10)]
	if r.Chance(4, 5) {
		o.Addr = uint16(base + r.Intn(12))
	}
	if r.Chance(4, 5) {
		switch o.Name {
		case "ReadCoils", "ReadDiscreteInputs":
			o.Qty = uint16(1 + r.Intn(40))
		case "ReadRegisters", "ReadBytes", "ReadRawBytes":
			o.Qty = uint16(1 + r.Intn(12))
		case "ReadUint32s", "ReadFloat32s":
			o.Qty = uint16(1 + r.Intn(5))
		case "ReadUint64s", "ReadFloat64s":
			o.Qty = uint16(1 + r.Intn(3))
		case "WriteCoils":
			if len(o.Bools) > 40 || len(o.Bools) == 0 {
				o.Bools = o.Bools[:min(len(o.Bools), 1+r.Intn(30))]
			}
		case "WriteRegisters":
			if len(o.U16s) > 12 {
				o.U16s = o.U16s[:1+r.Intn(12)]
			}
		case "WriteUint32s", "WriteFloat32s":
			if len(o.U32s) > 5 {
				o.U32s = o.U32s[:1+r.Intn(5)]
			}
		case "WriteUint64s", "WriteFloat64s":
			if len(o.U64s) > 3 {
				o.U64s = o.U64s[:1+r.Intn(3)]
			}
		case "WriteBytes", "WriteRawBytes":
			if len(o.Bytes) > 20 {
				o.Bytes = o.Bytes[:1+r.Intn(20)]
			}
		}
		if o.RT > 1 && r.Chance(9, 10) {
			o.RT = uint(r.Intn(2))
		}
	}
	return o
}

func init() {
	checks["C04"] = func(tier string, seed uint64, res *Result) error {
		res.Rule = "random histories of public client calls (all 30 methods, overlapping small ranges so that reads see earlier writes, boundary addresses, NaN payloads, limit violations) interleaved with SetEncoding / SetUnitId, executed by a REAL client against a REAL server with a 4 x 65536-cell memory handler over loopback tcp and tcp+tls (certificates minted in-process); every call result and every handler invocation (unit id, address, quantity, values) is compared with the Lean closed-loop model (System.run) and with the abstract register file (Spec.regfileStep); handler errors: each documented error and an arbitrary one must surface as specified; distinct = (transport, method, encoding, outcome class)"
		r := NewRng(seed).Fork(4000)
		ca, err := mint(certSpec{cn: "ca", isCA: true})
		if err != nil {
			return err
		}
		srvCert, _ := mint(certSpec{cn: "server", parent: ca, ips: []net.IP{net.IPv4(127, 0, 0, 1)}, extKeyUse: []x509.ExtKeyUsage{x509.ExtKeyUsageServerAuth}})
		cliCert, _ := mint(certSpec{cn: "client", parent: ca, extKeyUse: []x509.ExtKeyUsage{x509.ExtKeyUsageClientAuth}})
		var cs []kv
		nh := scale(tier, 60, 1200)
		for hi := 0; hi < nh; hi++ {
			kind := []string{"tcp", "tcp+tls"}[hi%2]
			h := &memHandler{}
			sconf := &modbus.ServerConfiguration{URL: kind + "://127.0.0.1:0", Timeout: 2 * time.Second, Logger: quietLog}
			cconf := &modbus.ClientConfiguration{Timeout: time.Second, Logger: quietLog}
			if kind == "tcp+tls" {
				sconf.TLSServerCert, sconf.TLSClientCAs = srvCert.tlsCert(), poolOf(ca)
				cconf.TLSClientCert, cconf.TLSRootCAs = cliCert.tlsCert(), poolOf(ca)
			}
			srv, err := modbus.NewServer(sconf, h)
			if err != nil || srv.Start() != nil {
				return fmt.Errorf("server start failed: %v", err)
			}
			cconf.URL = kind + "://" + srv.VerifListenAddr().String()
			mc, err := modbus.NewClient(cconf)
			if err != nil || mc.Open() != nil {
				srv.Stop()
				return fmt.Errorf("client open failed")
			}
			var cmds, results []string
			n := 20 + r.Intn(40)
			e, w := uint(1), uint(1)
			for i := 0; i < n; i++ {
				switch r.Intn(12) {
				case 0:
					u := byte(r.U64())
					mc.SetUnitId(u)
					cmds = append(cmds, fmt.Sprintf("U %d", u))
					results = append(results, "set")
				case 1:
					ne, nw := uint(r.Intn(4)), uint(r.Intn(4))
					if r.Chance(3, 4) {
						ne, nw = uint(1+r.Intn(2)), uint(1+r.Intn(2))
					}
					err := mc.SetEncoding(modbus.Endianness(ne), modbus.WordOrder(nw))
					cmds = append(cmds, fmt.Sprintf("E %d %d", ne, nw))
					if err == nil {
						e, w = ne, nw
						results = append(results, "set")
					} else {
						results = append(results, "err:"+canonErr(err))
					}
				default:
					op := genHistoryOp(r)
					out := op.Exec(mc)
					cmds = append(cmds, op.Line())
					results = append(results, out)
					cls := out
					if strings.HasPrefix(out, "ok:") {
						cls = "ok"
					}
					res.Eval(fmt.Sprintf("%s/%s/e%dw%d/%s", kind, op.Name, e, w, cls), true, kind+" "+op.Line()+" => "+shorten(out, 80))
				}
			}
			mc.Close()
			srv.Stop()
			h.mu.Lock()
			calls := strings.Join(h.calls, ";")
			h.mu.Unlock()
			cs = append(cs, kv{"sys " + kind + " " + strings.Join(cmds, ";"), strings.Join(results, ";") + " | calls=" + calls, "history"})
		}
		// handler errors surface as specified
		for _, en := range []string{"ErrIllegalFunction", "ErrIllegalDataAddress", "ErrIllegalDataValue", "ErrServerDeviceFailure", "ErrAcknowledge",
			"ErrServerDeviceBusy", "ErrMemoryParityError", "ErrGWPathUnavailable", "ErrGWTargetFailedToRespond", "ErrBadCRC", "ErrRequestTimedOut", "io-other", "ErrProtocolError"} {
			h := &memHandler{}
			if en == "io-other" {
				h.failWith = errOther
			} else {
				h.failWith = errByName[en]
			}
			srv, err := modbus.NewServer(&modbus.ServerConfiguration{URL: "tcp://127.0.0.1:0", Timeout: time.Second, Logger: quietLog}, h)
			if err != nil || srv.Start() != nil {
				continue
			}
			mc, _ := modbus.NewClient(&modbus.ClientConfiguration{URL: "tcp://" + srv.VerifListenAddr().String(), Timeout: 500 * time.Millisecond, Logger: quietLog})
			if mc.Open() == nil {
				for _, op := range []*Op{{Name: "ReadRegisters", Addr: 3, Qty: 2}, {Name: "WriteCoil", Addr: 9, B: true}, {Name: "ReadDiscreteInputs", Addr: 1, Qty: 9}} {
					out := op.Exec(mc)
					want := "err:" + en
					documented := en != "ErrBadCRC" && en != "ErrRequestTimedOut" && en != "io-other" && en != "ErrProtocolError"
					if !documented {
						want = "err:ErrServerDeviceFailure"
					}
					res.Eval("handler-error/"+en+"/"+op.Name, true, "handler returns "+en+": "+op.Line()+" => "+out)
					if out != want {
						note := "a handler error did not surface at the caller as specified"
						if en == "ErrProtocolError" {
							note = "handler returned ErrProtocolError: the connection is closed instead of answering server-device-failure"
						}
						res.Add(Finding{Kind: "property", Check: "error-surface", Line: "handler error " + en + "; " + op.Line(), Impl: out, Expect: want, Note: note})
					}
					if en == "ErrProtocolError" {
						break // the connection is gone
					}
				}
				mc.Close()
			}
			srv.Stop()
		}
		return systemCompare(cs, res)
	}
}

// systemCompare: every history vs the Lean closed-loop model (correspondence) and vs the abstract
// register file (property).
func systemCompare(cs []kv, res *Result) error {
	lines := make([]string, len(cs))
	for i := range cs {
		lines[i] = cs[i].line
	}
	outs, err := runModel(lines)
	if err != nil {
		return err
	}
	for i, c := range cs {
		p := strings.SplitN(outs[i], " spec=", 2)
		if len(p) != 2 {
			return fmt.Errorf("unexpected model output %q", shorten(outs[i], 200))
		}
		model, spec := p[0], p[1]
		res.Eval(fmt.Sprintf("history/%d", i%7), true, shorten(c.line, 300)+" => "+shorten(c.impl, 300))
		if spec != c.impl {
			// find the first command whose result / handler call differs from the register file
			note := firstHistoryDiff(c.line, c.impl, spec)
			res.Add(Finding{Kind: "property", Check: "regfile", Line: shorten(c.line, 4000), Impl: shorten(c.impl, 3000), Expect: shorten(spec, 3000), Note: "differs from the abstract register file: " + note})
		} else if model != c.impl {
			res.Add(Finding{Kind: "correspondence", Check: "system", Line: shorten(c.line, 4000), Impl: shorten(c.impl, 3000), Expect: shorten(model, 3000), Note: firstHistoryDiff(c.line, c.impl, model)})
		}
	}
	return nil
}

func firstHistoryDiff(line, impl, want string) string {
	cmds := strings.Split(strings.SplitN(line, " ", 3)[2], ";")
	ip := strings.SplitN(impl, " | calls=", 2)
	wp := strings.SplitN(want, " | calls=", 2)
	ir, wr := strings.Split(ip[0], ";"), strings.Split(wp[0], ";")
	for k := 0; k < len(ir) && k < len(wr) && k < len(cmds); k++ {
		if ir[k] != wr[k] {
			return fmt.Sprintf("command #%d `%s` returned %s, expected %s", k, shorten(cmds[k], 120), shorten(ir[k], 120), shorten(wr[k], 120))
		}
	}
	if len(ip) == 2 && len(wp) == 2 && ip[1] != wp[1] {
		ic, wc := strings.Split(ip[1], ";"), strings.Split(wp[1], ";")
		for k := 0; k < len(ic) && k < len(wc); k++ {
			if ic[k] != wc[k] {
				return fmt.Sprintf("handler invocation #%d was %s, expected %s", k, shorten(ic[k], 160), shorten(wc[k], 160))
			}
		}
		return fmt.Sprintf("%d handler invocations, expected %d", len(ic), len(wc))
	}
	return "lengths differ"
}
