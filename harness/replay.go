package main

import (
	"encoding/json"
	"fmt"
	"os"
)

// doReplay re-executes the findings of a replay file that carry an op line understood by
// mbmodel and prints model output next to the recorded implementation output.
func doReplay(prop, path string) int {
	b, err := os.ReadFile(path)
	if err != nil {
		fmt.Fprintln(os.Stderr, err)
		return 4
	}
	var rp struct {
		Findings []Finding `json:"findings"`
	}
	if err := json.Unmarshal(b, &rp); err != nil {
		fmt.Fprintln(os.Stderr, err)
		return 4
	}
	bad := 0
	for _, f := range rp.Findings {
		fmt.Printf("[%s/%s] %s\n  recorded impl: %s\n  expected     : %s\n", f.Kind, f.Check, f.Line, f.Impl, f.Expect)
		if rf, ok := replayers[f.Check]; ok {
			now := rf(f)
			fmt.Printf("  impl now     : %s\n", now)
			if now != f.Expect {
				bad++
			}
		}
	}
	if bad > 0 {
		return 1
	}
	return 0
}

var replayers = map[string]func(Finding) string{}
