package main

import (
	"crypto/x509"
	"crypto/x509/pkix"
	"encoding/asn1"
	"fmt"
	"net"
	"strings"
	"sync"
	"time"
	"unicode/utf8"

	"github.com/simonvetter/modbus"
)

func derLen(n int) []byte {
	if n < 128 {
		return []byte{byte(n)}
	}
	var d []byte
	for x := n; x > 0; x >>= 8 {
		d = append([]byte{byte(x)}, d...)
	}
	return append([]byte{0x80 | byte(len(d))}, d...)
}

func derUTF8(s []byte) []byte { return append(append([]byte{0x0c}, derLen(len(s))...), s...) }

func genRoleString(r *Rng) []byte {
	switch r.Intn(8) {
	case 0:
		return nil
	case 1:
		return []byte("operator")
	case 2:
		return []byte("Ünïcödé-rôle ✓ 𝔘")
	case 3:
		n := pickInt(r, []int{1, 126, 127, 128, 129, 255, 256, 257, 65535, 65536, 70000})
		b := make([]byte, n)
		for i := range b {
			b[i] = byte('a' + r.Intn(26))
		}
		return b
	case 4: // random valid UTF-8
		var sb strings.Builder
		for i := 0; i < r.Intn(12); i++ {
			sb.WriteRune(rune(pickInt(r, []int{0x24, 0x7f, 0x80, 0x7ff, 0x800, 0xd7ff, 0xe000, 0xffff, 0x10000, 0x10ffff, r.Intn(0xd800)})))
		}
		return []byte(sb.String())
	default: // possibly invalid bytes
		return r.Bytes(r.Intn(10))
	}
}

var badUTF8 = [][]byte{{0xc0, 0xaf}, {0xed, 0xa0, 0x80}, {0xf4, 0x90, 0x80, 0x80}, {0x80}, {0xe0, 0x80, 0x80}, {0xf0, 0x80, 0x80, 0x80},
	{0xc2}, {0xe1, 0x80}, {0xf1, 0x80, 0x80}, {0xff}, {0xfe}, {0xf8, 0x88, 0x80, 0x80, 0x80}, {0x41, 0xc3, 0x28}, {0xed, 0xbf, 0xbf}}

// genRoleValue: an extension value; mostly near a well-formed UTF8String
func genRoleValue(r *Rng) ([]byte, string) {
	s := genRoleString(r)
	good := derUTF8(s)
	switch r.Intn(16) {
	case 0, 1, 2, 3:
		return good, "der"
	case 4: // other string / universal tags, constructed bit, other classes
		v := append([]byte(nil), good...)
		v[0] = byte(pickInt(r, []int{0x13, 0x16, 0x04, 0x1e, 0x14, 0x2c, 0x8c, 0x0d, 0x00, 0x1f, 0x4c, 0xcc}))
		return v, "tag"
	case 5: // truncation
		return good[:r.Intn(len(good))], "truncated"
	case 6: // trailing bytes
		return append(append([]byte(nil), good...), r.Bytes(1+r.Intn(3))...), "trailing"
	case 7: // non-minimal long form
		n := len(s)
		if n < 128 {
			return append([]byte{0x0c, 0x81, byte(n)}, s...), "nonminimal"
		}
		return append(append([]byte{0x0c, 0x83, 0x00}, byte(n>>8), byte(n)), s...), "leading-zero"
	case 8: // indefinite / reserved / oversized length octets
		lo := [][]byte{{0x80}, {0xff}, {0x85, 1, 0, 0, 0, 0}, {0x84, 0x80, 0, 0, 0}, {0x84, 0x7f, 0xff, 0xff, 0xff}, {0x88, 0, 0, 0, 0, 0, 0, 0, 1}, {0x82, 0x00, 0x05}, {0x81, 0x00}}
		return append(append([]byte{0x0c}, lo[r.Intn(len(lo))]...), s...), "badlength"
	case 9: // length field off by one
		v := append([]byte(nil), good...)
		if len(v) > 1 && v[1] < 0x7f {
			v[1]++
		}
		return v, "len+1"
	case 10:
		b := badUTF8[r.Intn(len(badUTF8))]
		return derUTF8(append(append([]byte("ab"), b...), 'c')), "invalid-utf8"
	case 11:
		return r.Bytes(r.Intn(6)), "random"
	case 12:
		return []byte{0x0c}, "one-byte"
	case 13:
		return nil, "empty"
	default:
		return good, "der"
	}
}

var otherOID = asn1.ObjectIdentifier{2, 5, 29, 17}

func init() {
	checks["C15"] = func(tier string, seed uint64, res *Result) error {
		res.Rule = "extractRole on in-memory certificates whose extension lists are generated (0-3 role extensions at any position among unrelated extensions; values: DER UTF8Strings of many lengths incl. 127/128/255/256/65535/70000, other tags, truncations, trailing bytes, non-minimal / indefinite / oversized lengths, invalid UTF-8 of every class, random) compared with the Lean model (transcription of encoding/asn1 + utf8.Valid) and with Spec.roleOf; utf8.Valid vs model vs Unicode definition on all 1- and 2-byte strings and structured 3/4-byte strings; real TLS handshakes with minted client certificates (role via ExtraExtensions) and plain TCP sessions observing ClientRole in handlers; distinct = (number of role extensions, value class, position, outcome)"
		r := NewRng(seed)
		var cs []kv
		n := scale(tier, 6000, 120000)
		for i := 0; i < n; i++ {
			nRole := pickInt(r, []int{0, 1, 1, 1, 1, 1, 2, 2, 3})
			nOther := r.Intn(4)
			type ext struct {
				role bool
				val  []byte
			}
			var exts []ext
			var classes []string
			for k := 0; k < nRole; k++ {
				v, c := genRoleValue(r)
				exts = append(exts, ext{true, v})
				classes = append(classes, c)
			}
			for k := 0; k < nOther; k++ {
				v, _ := genRoleValue(r)
				exts = append(exts, ext{false, v})
			}
			// shuffle
			for k := len(exts) - 1; k > 0; k-- {
				j := r.Intn(k + 1)
				exts[k], exts[j] = exts[j], exts[k]
			}
			cert := &x509.Certificate{}
			var toks []string
			for _, e := range exts {
				id := otherOID
				t := "O:"
				if e.role {
					id, t = roleOID, "R:"
				}
				cert.Extensions = append(cert.Extensions, pkix.Extension{Id: id, Value: e.val})
				toks = append(toks, t+hx(e.val))
			}
			line := "role none"
			if len(toks) > 0 {
				line = "role " + strings.Join(toks, ",")
			}
			impl := guard(func() string { return hx([]byte(modbus.VerifExtractRole(cert))) })
			out := "empty"
			if impl != "-" {
				out = "role"
			}
			cs = append(cs, kv{line, impl, fmt.Sprintf("role/%d/%s/%s", nRole, strings.Join(classes, "+"), out)})
		}
		if err := compareLines("role", cs, res); err != nil {
			return err
		}
		// utf8.Valid (stdlib, modelled) — reported separately from the repository's own code
		var us []kv
		for a := 0; a < 256; a++ {
			us = append(us, kv{fmt.Sprintf("utf8 %02x", a), b01(utf8.Valid([]byte{byte(a)})), "utf8/1"})
			for b := 0; b < 256; b++ {
				us = append(us, kv{fmt.Sprintf("utf8 %02x%02x", a, b), b01(utf8.Valid([]byte{byte(a), byte(b)})), fmt.Sprintf("utf8/2/%x", a>>4)})
			}
		}
		for _, a := range []int{0xe0, 0xe1, 0xec, 0xed, 0xee, 0xef, 0xf0, 0xf1, 0xf3, 0xf4, 0xf5} {
			for _, b := range []int{0x7f, 0x80, 0x8f, 0x90, 0x9f, 0xa0, 0xbf, 0xc0} {
				for _, c := range []int{0x7f, 0x80, 0xbf, 0xc0} {
					us = append(us, kv{fmt.Sprintf("utf8 %02x%02x%02x", a, b, c), b01(utf8.Valid([]byte{byte(a), byte(b), byte(c)})), "utf8/3"})
					for _, d := range []int{0x7f, 0x80, 0xbf, 0xc0} {
						us = append(us, kv{fmt.Sprintf("utf8 %02x%02x%02x%02x", a, b, c, d), b01(utf8.Valid([]byte{byte(a), byte(b), byte(c), byte(d)})), "utf8/4"})
					}
				}
			}
		}
		if err := compareLines("utf8-stdlib", us, res); err != nil {
			return err
		}
		realRoles(res)
		return nil
	}
}

// roleLogHandler records the ClientRole / ClientAddr of every request
type roleLogHandler struct {
	mu    sync.Mutex
	roles []string
}

func (h *roleLogHandler) add(role string) { h.mu.Lock(); h.roles = append(h.roles, role); h.mu.Unlock() }
func (h *roleLogHandler) HandleCoils(r *modbus.CoilsRequest) ([]bool, error) {
	h.add(r.ClientRole)
	return make([]bool, r.Quantity), nil
}
func (h *roleLogHandler) HandleDiscreteInputs(r *modbus.DiscreteInputsRequest) ([]bool, error) {
	h.add(r.ClientRole)
	return make([]bool, r.Quantity), nil
}
func (h *roleLogHandler) HandleHoldingRegisters(r *modbus.HoldingRegistersRequest) ([]uint16, error) {
	h.add(r.ClientRole)
	return make([]uint16, r.Quantity), nil
}
func (h *roleLogHandler) HandleInputRegisters(r *modbus.InputRegistersRequest) ([]uint16, error) {
	h.add(r.ClientRole)
	return make([]uint16, r.Quantity), nil
}

// realRoles: real tcp+tls sessions with minted client certificates, and plain tcp sessions.
func realRoles(res *Result) {
	ca, err := mint(certSpec{cn: "ca", isCA: true})
	if err != nil {
		res.Note("cert minting failed: " + err.Error())
		return
	}
	srvCert, _ := mint(certSpec{cn: "server", parent: ca, ips: []net.IP{net.IPv4(127, 0, 0, 1)}, extKeyUse: []x509.ExtKeyUsage{x509.ExtKeyUsageServerAuth}})
	h := &roleLogHandler{}
	srv, err := modbus.NewServer(&modbus.ServerConfiguration{URL: "tcp+tls://127.0.0.1:0", Timeout: 2 * time.Second, TLSServerCert: srvCert.tlsCert(), TLSClientCAs: poolOf(ca), Logger: quietLog}, h)
	if err != nil || srv.Start() != nil {
		res.Add(Finding{Kind: "property", Check: "real-role", Line: "start tcp+tls server", Impl: fmt.Sprint(err), Expect: "starts"})
		return
	}
	defer srv.Stop()
	addr := srv.VerifListenAddr().String()
	type tc struct {
		name string
		exts []pkix.Extension
		want string
	}
	cases := []tc{
		{"one-role", []pkix.Extension{{Id: roleOID, Value: derUTF8([]byte("operator"))}}, "operator"},
		{"no-role", nil, ""},
		{"two-roles", []pkix.Extension{{Id: roleOID, Value: derUTF8([]byte("a"))}, {Id: roleOID, Value: derUTF8([]byte("b"))}}, "?"},
		{"printable-string", []pkix.Extension{{Id: roleOID, Value: append([]byte{0x13, 2}, "ab"...)}}, ""},
		{"trailing", []pkix.Extension{{Id: roleOID, Value: append(derUTF8([]byte("A")), 0, 0)}}, ""},
		{"utf8-role", []pkix.Extension{{Id: roleOID, Value: derUTF8([]byte("rôle✓"))}}, "rôle✓"},
	}
	for _, c := range cases {
		cli, err := mint(certSpec{cn: "client", parent: ca, extKeyUse: []x509.ExtKeyUsage{x509.ExtKeyUsageClientAuth}, extraExts: c.exts})
		if err != nil {
			// x509 refuses to create certificates with duplicate extensions on newer Go versions
			res.Note("could not mint client certificate for case " + c.name + ": " + err.Error())
			continue
		}
		mc, err := modbus.NewClient(&modbus.ClientConfiguration{URL: "tcp+tls://" + addr, Timeout: time.Second, TLSClientCert: cli.tlsCert(), TLSRootCAs: poolOf(ca), Logger: quietLog})
		if err != nil {
			continue
		}
		h.mu.Lock()
		h.roles = nil
		h.mu.Unlock()
		if err := mc.Open(); err != nil {
			res.Note("tls open failed for case " + c.name + ": " + err.Error())
			continue
		}
		_, rerr := mc.ReadRegister(1, modbus.HOLDING_REGISTER)
		mc.Close()
		h.mu.Lock()
		got := strings.Join(h.roles, "|")
		nseen := len(h.roles)
		h.mu.Unlock()
		res.Eval("real/"+c.name, true, fmt.Sprintf("tls client cert %s => handler saw role %q (err %v)", c.name, got, rerr))
		if c.want == "?" {
			if nseen > 0 && got != "" {
				res.Add(Finding{Kind: "property", Check: "real-role", Line: c.name, Impl: got, Expect: "empty role"})
			}
			continue
		}
		if nseen != 1 || got != c.want {
			res.Add(Finding{Kind: "property", Check: "real-role", Line: c.name, Impl: fmt.Sprintf("%d calls, role %q, err %v", nseen, got, rerr), Expect: fmt.Sprintf("1 call with role %q", c.want)})
		}
	}
	// the role is the LEAF's: extra certificates sent along in the chain (here an unrelated
	// self-signed one carrying a role) must not supply it
	extra, eerr := mint(certSpec{cn: "bystander", extraExts: []pkix.Extension{{Id: roleOID, Value: derUTF8([]byte("admin"))}}})
	for _, lc := range []struct {
		name string
		exts []pkix.Extension
		want string
	}{
		{"chain/leaf-without-role+extra-with-role", nil, ""},
		{"chain/leaf-printable-role+extra-with-role", []pkix.Extension{{Id: roleOID, Value: append([]byte{0x13, 2}, "ab"...)}}, ""},
		{"chain/leaf-role+extra-with-role", []pkix.Extension{{Id: roleOID, Value: derUTF8([]byte("operator"))}}, "operator"},
	} {
		if eerr != nil {
			break
		}
		cli, err := mint(certSpec{cn: "client", parent: ca, extKeyUse: []x509.ExtKeyUsage{x509.ExtKeyUsageClientAuth}, extraExts: lc.exts})
		if err != nil {
			continue
		}
		cert := cli.tlsCert()
		cert.Certificate = append(cert.Certificate, extra.der)
		mc, err := modbus.NewClient(&modbus.ClientConfiguration{URL: "tcp+tls://" + addr, Timeout: time.Second, TLSClientCert: cert, TLSRootCAs: poolOf(ca), Logger: quietLog})
		if err != nil {
			continue
		}
		h.mu.Lock()
		h.roles = nil
		h.mu.Unlock()
		if err := mc.Open(); err != nil {
			res.Note("tls open failed for case " + lc.name + ": " + err.Error())
			continue
		}
		_, rerr := mc.ReadRegister(1, modbus.HOLDING_REGISTER)
		mc.Close()
		h.mu.Lock()
		got := strings.Join(h.roles, "|")
		nseen := len(h.roles)
		h.mu.Unlock()
		res.Eval("real/"+lc.name, true, fmt.Sprintf("tls client chain %s => handler saw role %q (err %v)", lc.name, got, rerr))
		if nseen != 1 || got != lc.want {
			res.Add(Finding{Kind: "property", Check: "real-role", Line: lc.name, Impl: fmt.Sprintf("%d calls, role %q, err %v", nseen, got, rerr), Expect: fmt.Sprintf("1 call with role %q (the leaf's)", lc.want),
				Note: "the role seen by the handler did not come from the client's leaf certificate"})
		}
	}
	// plain tcp: always the empty role
	h2 := &roleLogHandler{}
	srv2, err := modbus.NewServer(&modbus.ServerConfiguration{URL: "tcp://127.0.0.1:0", Timeout: 2 * time.Second, Logger: quietLog}, h2)
	if err == nil && srv2.Start() == nil {
		mc, _ := modbus.NewClient(&modbus.ClientConfiguration{URL: "tcp://" + srv2.VerifListenAddr().String(), Timeout: time.Second, Logger: quietLog})
		if mc.Open() == nil {
			mc.ReadCoil(1)
			mc.WriteRegister(2, 3)
			mc.Close()
		}
		srv2.Stop()
		h2.mu.Lock()
		got := strings.Join(h2.roles, "|")
		nseen := len(h2.roles)
		h2.mu.Unlock()
		res.Eval("real/plain-tcp", true, fmt.Sprintf("plain tcp: %d calls, roles %q", nseen, got))
		if nseen != 2 || got != "|" {
			res.Add(Finding{Kind: "property", Check: "real-role", Line: "plain tcp session", Impl: fmt.Sprintf("%d calls, roles %q", nseen, got), Expect: "2 calls, empty roles"})
		}
	}
}
